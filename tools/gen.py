#!/usr/bin/env python3
"""Translator (DESIGN §2.2): regenerate lean/AnemoModel/Gen/Tables.lean from /repo's working tree.

Only tables and constants are translated (shapes for which a translator is robust).  Each item is
extracted independently; an item that can no longer be extracted (harmless refactor changed its
shape) falls back to the committed baseline text and is reported as `untranslatable:<item>` -- that
is not an alarm, the item is then tied to the code by the correspondence check only.
Usage: gen.py [--repo /repo] [--out DIR] [--write-baseline]   prints a JSON status object.
"""
import json, os, re, sys

HERE = os.path.dirname(os.path.abspath(__file__))
BASELINE = os.path.join(HERE, 'gen_baseline.json')


def read(repo, rel):
    with open(os.path.join(repo, rel)) as f:
        return f.read()


def strip_comments(s):
    s = re.sub(r'//[^\n]*', '', s)
    return re.sub(r'/\*.*?\*/', '', s, flags=re.S)


def num(s):
    s = s.replace('_', '').strip()
    m = re.fullmatch(r'(\d+)(?:u\d+|usize)?', s)
    if m:
        return int(m.group(1))
    # tiny constant expressions such as 60 * 1_000
    if re.fullmatch(r'[\d\s*+()]+', s):
        return int(eval(s))
    raise ValueError('not a number: ' + s)


def lean_bytes(b):
    return '[' + ', '.join(str(x) for x in b) + ']'


def block_after(src, start_pat):
    """text of the brace block that follows the first match of start_pat"""
    m = re.search(start_pat, src)
    if not m:
        raise ValueError('pattern not found: ' + start_pat)
    i = src.index('{', m.end() - 1)
    depth = 0
    for j in range(i, len(src)):
        if src[j] == '{':
            depth += 1
        elif src[j] == '}':
            depth -= 1
            if depth == 0:
                return src[i + 1:j]
    raise ValueError('unbalanced braces after ' + start_pat)


# ---------------------------------------------------------------- items

def item_anemo(repo):
    s = strip_comments(read(repo, 'crates/anemo/src/network/wire.rs'))
    m = re.search(r'const\s+ANEMO\s*:[^=]*=\s*b"([^"\\]*)"\s*;', s)
    if not m:
        raise ValueError('ANEMO const')
    return f'def ANEMO : Bytes := {lean_bytes(m.group(1).encode())}\n'


def enum_table(src, name):
    body = block_after(src, r'pub\s+enum\s+' + name + r'\s*\{')
    ents = re.findall(r'(\w+)\s*=\s*([\d_]+)\s*,', body)
    if not ents:
        raise ValueError('enum ' + name)
    rest = re.sub(r'(\w+)\s*=\s*([\d_]+)\s*,', '', body).strip()
    if rest:
        raise ValueError('enum ' + name + ' has unexpected content: ' + rest[:40])
    return [(n, num(v)) for n, v in ents]


def new_arms(src, name):
    impl = block_after(src, r'impl\s+' + name + r'\s*\{')
    fn = block_after(impl, r'pub\s+fn\s+new\s*\(')
    mt = block_after(fn, r'match\s+\w+\s*\{')
    arms = []
    default_err = False
    for arm in [a.strip() for a in re.split(r',\s*\n|,\s*$', mt) if a.strip()]:
        m = re.fullmatch(r'([\d_]+)\s*=>\s*(?:Ok\()?\s*(?:' + name + r'::)?(\w+)\s*\)?', arm)
        if m:
            arms.append((num(m.group(1)), m.group(2)))
            continue
        if re.match(r'_\s*=>\s*(return\s+)?Err', arm):
            default_err = True
            continue
        raise ValueError(f'{name}::new arm not understood: {arm[:60]}')
    if not default_err:
        raise ValueError(f'{name}::new has no error default')
    return arms


def lean_enum(name, table, arms):
    ctors = [n for n, _ in table]
    out = [f'inductive {name} where']
    out += [f'  | {c}' for c in ctors]
    out += ['  deriving DecidableEq, Repr, Inhabited', '']
    out += [f'def {name}.toU16 : {name} → Nat']
    out += [f'  | .{c} => {v}' for c, v in table]
    out += ['', f'def {name}.new (code : Nat) : Option {name} :=', '  match code with']
    for v, c in arms:
        if c not in ctors:
            raise ValueError(f'{name}::new returns unknown variant {c}')
        out += [f'  | {v} => some .{c}']
    out += ['  | _ => none', '']
    out += [f'def {name}.all : List {name} := [' + ', '.join('.' + c for c in ctors) + ']', '']
    out += [f'def {name}.name : {name} → String']
    out += [f'  | .{c} => "{c}"' for c in ctors]
    return '\n'.join(out) + '\n'


def item_version(repo):
    s = strip_comments(read(repo, 'crates/anemo/src/types/mod.rs'))
    return lean_enum('Version', enum_table(s, 'Version'), new_arms(s, 'Version'))


def item_status(repo):
    s = strip_comments(read(repo, 'crates/anemo/src/types/response.rs'))
    txt = lean_enum('StatusCode', enum_table(s, 'StatusCode'), new_arms(s, 'StatusCode'))
    impl = block_after(s, r'impl\s+StatusCode\s*\{')
    fn = block_after(impl, r'pub\s+fn\s+is_success\s*\(')
    m = re.fullmatch(r'\s*([\d_]+)\s*<=\s*self\.to_u16\(\)\s*&&\s*self\.to_u16\(\)\s*<=\s*([\d_]+)\s*', fn)
    if not m:
        raise ValueError('is_success body')
    txt += f'\ndef StatusCode.isSuccess (s : StatusCode) : Bool := {num(m.group(1))} ≤ s.toU16 && s.toU16 ≤ {num(m.group(2))}\n'
    return txt


def str_const(src, name):
    m = re.search(r'pub\s+const\s+' + name + r'\s*:\s*&str\s*=\s*"([^"\\]*)"\s*;', src)
    if not m:
        raise ValueError('const ' + name)
    return m.group(1).encode()


def item_headers(repo):
    s = strip_comments(read(repo, 'crates/anemo/src/types/mod.rs'))
    t = strip_comments(read(repo, 'crates/anemo-tower/src/rate_limit.rs'))
    out = ''
    for lean, const, src in [('headerContentType', 'CONTENT_TYPE', s), ('headerStatusMessage', 'STATUS_MESSAGE', s),
                             ('headerTimeout', 'TIMEOUT', s), ('headerWaitNanos', 'WAIT_NANOS_HEADER', t)]:
        out += f'def {lean} : Bytes := {lean_bytes(str_const(src, const))}\n'
    return out


def item_config(repo):
    s = strip_comments(read(repo, 'crates/anemo/src/config.rs'))
    want = [('connectivityCheckIntervalMs', 'CONNECTIVITY_CHECK_INTERVAL_MS', 'connectivity_check_interval'),
            ('maxConnectionBackoffMs', 'MAX_CONNECTION_BACKOFF_MS', 'max_connection_backoff'),
            ('connectionBackoffMs', 'CONNECTION_BACKOFF_MS', 'connection_backoff'),
            ('connectTimeoutMs', 'CONNECTION_TIMEOUT_MS', 'connect_timeout'),
            ('maxOutstandingConnecting', 'MAX_CONCURRENT_OUTSTANDING_CONNECTING_CONNECTIONS', 'max_concurrent_outstanding_connecting_connections'),
            ('connectionManagerChannelCapacity', 'CONNECTION_MANAGER_CHANNEL_CAPACITY', 'connection_manager_channel_capacity'),
            ('peerEventChannelCapacity', 'PEER_EVENT_BROADCAST_CHANNEL_CAPACITY', 'peer_event_broadcast_channel_capacity'),
            ('shutdownIdleTimeoutMs', 'DEFAULT_SHUTDOWN_IDLE_TIMEOUT_MS', 'shutdown_idle_timeout')]
    impl = block_after(s, r'impl\s+Config\s*\{')
    out = ''
    for lean, const, fn in want:
        body = block_after(impl, r'fn\s+' + fn + r'\s*\(')
        m = re.search(r'const\s+' + const + r'\s*:\s*\w+\s*=\s*([^;]+);', body)
        if not m:
            raise ValueError('config default ' + const)
        if const not in body[m.end():]:
            raise ValueError('config default ' + const + ' unused')
        # the getter must read its own field and no other
        field = fn + '_ms' if lean.endswith('Ms') else fn
        used = set(re.findall(r'self\s*\.\s*(\w+)', body))
        if used != {field}:
            raise ValueError(f'config getter {fn} reads {sorted(used)} instead of {field}')
        out += f'def {lean} : Nat := {num(m.group(1))}\n'
    # no default for the optional limits
    for fn in ['max_concurrent_connections', 'max_frame_size']:
        body = block_after(impl, r'fn\s+' + fn + r'\s*\(').strip()
        if body != 'self.' + fn:
            raise ValueError('config accessor ' + fn)
    for fn in ['inbound_request_timeout', 'outbound_request_timeout']:
        body = re.sub(r'\s+', '', block_after(impl, r'fn\s+' + fn + r'\s*\('))
        if body != f'self.{fn}_ms.map(Duration::from_millis)':
            raise ValueError('config accessor ' + fn)
    # QUIC transport options: every option sets the quinn parameter of the same name, and nothing else
    if re.sub(r'\s+', '', block_after(impl, r'fn\s+transport_config\s*\(')) != 'self.quic.as_ref().map(QuicConfig::transport_config).unwrap_or_default()':
        raise ValueError('config: Config::transport_config')
    qimpl = block_after(s, r'impl\s+QuicConfig\s*\{')
    qb = flat(block_after(qimpl, r'fn\s+transport_config\s*\('))
    if not qb.startswith('let mut config = quinn::TransportConfig::default();') or not qb.endswith('config'):
        raise ValueError('config: QuicConfig::transport_config frame')
    pairs = re.findall(r'if let Some\((\w+)\) = self\s*\.\s*(\w+)((?:\s*\.\s*map\([^{]*?\))*)\s*\{ config\.(\w+)\((?:Some\()?\1\)?\); \}', qb)
    got = {(f, st) for _, f, _, st in pairs}
    wantq = {(f, f[:-3] if f.endswith('_ms') else f) for f in ['max_concurrent_bidi_streams', 'max_concurrent_uni_streams', 'stream_receive_window', 'receive_window',
                                                             'send_window', 'crypto_buffer_size', 'max_idle_timeout_ms', 'keep_alive_interval_ms']}
    if got != wantq or qb.count('config.') != len(wantq):
        raise ValueError('config: QuicConfig::transport_config sets ' + str(sorted(got ^ wantq)))
    return out


def cmp_expr(e):
    e = e.strip()
    if e in ('true', 'false'):
        return e
    m = re.fullmatch(r'(\w+)\s*(<=|>=|<|>|==|!=)\s*(\w+)', e)
    if not m:
        raise ValueError('tie-break arm: ' + e)
    names = {'own_peer_id': 'own', 'remote_peer_id': 'remote'}
    a, op, b = m.groups()
    if a not in names or b not in names:
        raise ValueError('tie-break arm operands: ' + e)
    op = {'<=': '≤', '>=': '≥', '!=': '≠', '==': '='}.get(op, op)
    return f'decide ({names[a]} {op} {names[b]})'


def item_tiebreak(repo):
    s = strip_comments(read(repo, 'crates/anemo/src/network/connection_manager.rs'))
    fn = block_after(s, r'fn\s+simultaneous_dial_tie_breaking\s*\(')
    mt = block_after(fn, r'match\s*\(\s*existing_origin\s*,\s*new_origin\s*\)\s*\{')
    arms = re.findall(r'\(\s*ConnectionOrigin::(\w+)\s*,\s*ConnectionOrigin::(\w+)\s*\)\s*=>\s*([^,]+),', mt)
    if len(arms) != 4 or len({(a, b) for a, b, _ in arms}) != 4:
        raise ValueError('tie-break arms')
    out = ['def tieBreakGen (own remote : Nat) (existing new : Origin) : Bool :=', '  match existing, new with']
    for a, b, e in arms:
        out.append(f'  | .{a.lower()}, .{b.lower()} => {cmp_expr(e)}')
    return '\n'.join(out) + '\n'


def fmt_pieces(fmt, args, sep_expr_ok):
    """translate a Rust format string with {} holes into a Lean append expression"""
    parts = re.split(r'(\{\})', fmt)
    out, k = [], 0
    for part in parts:
        if part == '{}':
            out.append(args[k]); k += 1
        elif part:
            out.append(lean_bytes(part.encode()))
    if k != len(args):
        raise ValueError('format holes/args mismatch')
    return ' ++ '.join(out)


def item_codegen(repo):
    c = strip_comments(read(repo, 'crates/anemo-build/src/client.rs'))
    s = strip_comments(read(repo, 'crates/anemo-build/src/server.rs'))
    sep_re = r'if\s+(?:service\.package\(\)|package)\.is_empty\(\)\s*\{\s*""\s*\}\s*else\s*\{\s*"([^"]*)"\s*\}'
    def path_fmt(src, what):
        m = re.search(r'let\s+path\s*=\s*format!\(\s*"([^"]*)"\s*,\s*(?:service\.package\(\)|package)\s*,\s*' + sep_re + r'\s*,\s*service\.identifier\(\)\s*(?:,\s*method\.identifier\(\)\s*)?,?\s*\)', src)
        if not m:
            raise ValueError('path format! in ' + what)
        return m.group(1), m.group(2)
    out = ''
    # client: generate_methods
    gm = block_after(c, r'fn\s+generate_methods\s*\(')
    f, sep = path_fmt(gm, 'client.rs generate_methods')
    out += 'def clientPathGen (pkg svc m : Bytes) : Bytes :=\n  ' + fmt_pieces(f, ['pkg', f'(if pkg.isEmpty then [] else {lean_bytes(sep.encode())})', 'svc', 'm'], True) + '\n'
    # server: generate_method_routes
    gr = block_after(s, r'fn\s+generate_method_routes\s*\(')
    f, sep = path_fmt(gr, 'server.rs generate_method_routes')
    out += 'def serverPathGen (pkg svc m : Bytes) : Bytes :=\n  ' + fmt_pieces(f, ['pkg', f'(if pkg.isEmpty then [] else {lean_bytes(sep.encode())})', 'svc', 'm'], True) + '\n'
    # server: SERVICE_NAME
    g = block_after(s, r'pub\s+fn\s+generate\s*\(')
    f, sep = path_fmt(g, 'server.rs generate (service name)')
    out += 'def serviceNameGen (pkg svc : Bytes) : Bytes :=\n  ' + fmt_pieces(f, ['pkg', f'(if pkg.isEmpty then [] else {lean_bytes(sep.encode())})', 'svc'], True) + '\n'
    if not re.search(r'generate_transport\(\s*&server_service\s*,\s*&server_trait\s*,\s*&path\s*\)', g):
        raise ValueError('SERVICE_NAME is not built from `path`')
    # the generated client method: the route is set unconditionally, then one unary call
    gu = flat(block_after(c, r'fn\s+generate_unary\s*\('))
    if ('let codec = #codec_name::default(); let mut request = request.into_request(); *request.route_mut() = #path.into(); self.inner.unary(request, codec).await' not in gu
            or 'fn generate_unary(method: &Method, path: String) -> TokenStream' not in flat(c)
            or not re.search(r'generate_unary\(\s*method\s*,\s*path\s*\)', gm)):
        raise ValueError('client.rs generate_unary: ' + gu[-220:])
    # the generated server: per-method layers are STACKED by add_layer_for_<method>, applied around the method service
    fs = flat(s)
    for piece in ['pub fn #add_layer_function_names( mut self, layer: InboundRequestLayer<#method_request_types, #method_response_types>, ) -> Self { self.#method_layer_names = InboundRequestLayer::new( Stack::new(self.#method_layer_names, layer) ); self }',
                  '.map(|method| quote::format_ident!("add_layer_for_{}", method.name()))']:
        if piece not in fs:
            raise ValueError('server.rs add_layer_for template: ' + piece[:60])
    # router prefix of add_rpc_service
    r = strip_comments(read(repo, 'crates/anemo/src/routing/mod.rs'))
    ar = block_after(r, r'pub\s+fn\s+add_rpc_service')
    m = re.search(r'format!\(\s*"([^"]*)"\s*,\s*S::SERVICE_NAME\s*\)', ar)
    if not m:
        raise ValueError('add_rpc_service format!')
    out += 'def rpcRoutePatternGen (name : Bytes) : Bytes :=\n  ' + fmt_pieces(m.group(1), ['name'], True) + '\n'
    return out


def item_admit(repo):
    """inbound admission decision of handle_incoming_task -> Lean `admitGen`"""
    s = strip_comments(read(repo, 'crates/anemo/src/network/connection_manager.rs'))
    fn = block_after(s, r'async\s+fn\s+handle_incoming_task\s*\(')
    mt = block_after(fn, r'match\s+known_peers\.get\(\s*&connection\.peer_id\(\)\s*\)\s*\{')
    # arms: Some(PeerInfo { affinity: A | B, .. }) => { ... }   and   _ => { ... }
    arms = []
    pos = 0
    while True:
        m = re.compile(r'(Some\(\s*PeerInfo\s*\{\s*affinity\s*:\s*([^,]+),\s*\.\.\s*,?\s*\}\s*\)|_)\s*=>\s*\{').search(mt, pos)
        if not m:
            break
        i = m.end() - 1
        depth = 0
        for j in range(i, len(mt)):
            if mt[j] == '{': depth += 1
            elif mt[j] == '}':
                depth -= 1
                if depth == 0: break
        arms.append((m.group(2), mt[i + 1:j]))
        pos = j + 1
    if len(arms) != 3 or arms[-1][0] is not None:
        raise ValueError('admission match: expected two affinity arms and a default arm')
    lines = ['def admitGen (aff : Option Affinity) (limit : Option Nat) (active : Nat) : Bool :=', '  match aff with']
    seen = set()
    for pat, body in arms[:2]:
        affs = [a.strip().replace('PeerAffinity::', '') for a in pat.split('|')]
        rejects = 'return Err' in body
        if not rejects and body.strip() != '':
            raise ValueError('admission pass-through arm is not empty')
        for a in affs:
            if a not in ('High', 'Allowed', 'Never') or a in seen:
                raise ValueError('admission arm affinity ' + a)
            seen.add(a)
            lines.append(f'  | some .{a.lower()} => {"false" if rejects else "true"}')
    if seen != {'High', 'Allowed', 'Never'}:
        raise ValueError('admission arms do not cover the three affinities')
    body = arms[2][1]
    m = re.search(r'if\s+let\s+Some\(limit\)\s*=\s*config\.max_concurrent_connections\(\)\s*\{(.*)\}', body, flags=re.S)
    if not m:
        raise ValueError('admission default arm: limit lookup')
    m2 = re.search(r'if\s+active_peers\.len\(\)\s*(>=|>|<=|<|==)\s*limit\s*\{\s*return\s+Err', m.group(1))
    if not m2:
        raise ValueError('admission default arm: comparison')
    op = {'>=': '≥', '<=': '≤', '==': '='}.get(m2.group(1), m2.group(1))
    lines.append('  | none => match limit with')
    lines.append('    | none => true')
    lines.append(f'    | some l => !decide (active {op} l)')
    return '\n'.join(lines) + '\n'


def item_life(repo):
    """decision points of the manager task that matter under runtime teardown (C08)"""
    cm = strip_comments(read(repo, 'crates/anemo/src/network/connection_manager.rs'))
    ep = strip_comments(read(repo, 'crates/anemo/src/endpoint.rs'))
    start = block_after(cm, r'pub\s+async\s+fn\s+start\s*\(\s*mut\s+self\s*\)')
    shut = block_after(cm, r'async\s+fn\s+shutdown\s*\(\s*mut\s+self\s*\)')
    flat = lambda t: re.sub(r'\s+', ' ', t)
    st, sh, epf = flat(start), flat(shut), flat(ep)
    # accept arm
    m = re.search(r'connecting = self\.endpoint\.accept\(\) => \{(.*?)\} ?,? ?Some\(connecting_output\)', st)
    if not m:
        raise ValueError('life: accept arm')
    arm = re.sub(r'# ?\[cfg\(bmwill_anemo_verif\)\] ?crate::verif::point_ctx\([^;]*\);', '', m.group(1)).strip()
    if re.fullmatch(r'if let Some\(connecting\) = connecting \{ self\.handle_incoming\(connecting\); \} else \{ break; \}', arm):
        leaves = True
    elif re.fullmatch(r'if let Some\(connecting\) = connecting \{ self\.handle_incoming\(connecting\); \}', arm):
        leaves = False
    else:
        raise ValueError('life: accept arm body: ' + arm[:120])
    # Endpoint::accept: None only from quinn's None
    pm = re.search(r'impl Future for Accept<\'_> \{.*?fn poll\(.*?\) -> Poll<Self::Output> \{(.*?)\} \}', epf)
    if not pm:
        raise ValueError('life: Accept::poll')
    body = pm.group(1)
    if 'and_then(|incoming| incoming.accept().ok())' in body:
        means_closed = False
    elif re.search(r'None => return Poll::Ready\(None\)', body) and re.search(r'Err\(_\) => this\.inner\.set\(this\.endpoint\.accept\(\)\)', body) and body.count('Poll::Ready(None)') == 1:
        means_closed = True
    else:
        raise ValueError('life: Accept::poll body')
    # join results
    pj = re.search(r'Some\(connecting_output\) = self\.pending_connections\.join_next\(\) => \{(.*?)\} ?,? ?Some\(connection_handler_output\)', st)
    hj = re.search(r'Some\(connection_handler_output\) = self\.connection_handlers\.join_next\(\) => \{(.*?)\} ?,? ?\} \}', st)
    if not pj or not hj:
        raise ValueError('life: join arms')
    pjb, hjb = pj.group(1), hj.group(1)
    if 'connecting_output.unwrap()' in pjb or 'connection_handler_output.unwrap()' in hjb:
        only_panics = False
    elif (re.search(r'match connecting_output \{ Ok\(connecting_result\) => self\.handle_connecting_result\(connecting_result\), Err\(e\) if e\.is_panic\(\) => std::panic::resume_unwind\(e\.into_panic\(\)\), Err\(_\) => \{\} ?,? \}', pjb)
          and re.search(r'if let Err\(e\) = connection_handler_output \{ if e\.is_panic\(\) \{ std::panic::resume_unwind\(e\.into_panic\(\)\); \} self\.handler_cancelled = true; \}', hjb)):
        only_panics = True
    else:
        raise ValueError('life: join result handling')
    # shutdown sequence
    order = ['self.endpoint.close();', 'self.pending_connections.shutdown().await;', 'self.connection_handlers.join_next().await', 'assert!(', '.wait_idle(self.config.shutdown_idle_timeout())', 'self.endpoint.rebind(socket)']
    pos = [sh.find(x) for x in order]
    tolerant = pos[1] >= 0
    pos_chk = [p for i, p in enumerate(pos) if i != 1]
    if any(p < 0 for p in pos_chk) or pos_chk != sorted(pos_chk) or (tolerant and not (pos[0] < pos[1] < pos[2])):
        raise ValueError('life: shutdown sequence')
    if not tolerant and 'pending_connections' not in sh:
        raise ValueError('life: pending connections not terminated')
    if re.search(r'while let Some\(result\) = self\.connection_handlers\.join_next\(\)\.await \{ self\.handler_cancelled \|= matches!\(result, Err\(e\) if e\.is_cancelled\(\)\); \}', sh) and re.search(r'assert!\( self\.handler_cancelled \|\| self\.active_peers\.inner\(\)\.connections\.is_empty\(\),', sh):
        waived = True
    elif re.search(r'while self\.connection_handlers\.join_next\(\)\.await\.is_some\(\) \{\}', sh) and re.search(r'assert!\( self\.active_peers\.inner\(\)\.connections\.is_empty\(\),', sh):
        waived = False
    else:
        raise ValueError('life: handler join / assert')
    b = lambda x: 'true' if x else 'false'
    return (f'def acceptNoneLeavesLoop : Bool := {b(leaves)}\n'
            f'def acceptNoneMeansClosed : Bool := {b(means_closed)}\n'
            f'def joinPropagatesOnlyPanics : Bool := {b(only_panics)}\n'
            f'def assertWaivedWhenCancelled : Bool := {b(waived)}\n'
            f'def pendingShutdownTolerant : Bool := {b(tolerant)}\n')


def flat(t):
    return re.sub(r'\s+', ' ', t).strip()

def strip_hooks(t):
    t = re.sub(r'#\s*\[cfg\(bmwill_anemo_verif\)\]\s*crate::verif::point(_ctx)?\([^;]*\);', '', t)
    t = re.sub(r'(debug|trace|info|warn)!\([^;]*\);', '', t)
    return t

STMT = [
    (r'let old_connection = entry\.insert\(new_connection\.clone\(\)\)', 'insertNew'),
    (r'entry\.insert\(new_connection\.clone\(\)\)', 'insertNew'),
    (r'old_connection\.close\(\)', 'closeOld'),
    (r'new_connection\.close\(\)', 'closeNew'),
    (r'self\.send_event\(PeerEvent::LostPeer\(peer_id, DisconnectReason::Requested\)\)', 'emitLostRequested'),
    (r'self\.send_event\(PeerEvent::NewPeer\(peer_id\)\)', 'emitNew'),
    (r'return None', 'retNone'),
    (r'Some\(new_connection\)', 'retSome'),
]

def stmts(body, what):
    body = flat(strip_hooks(body))
    out = []
    # the name the replaced connection is bound to is free
    m = re.search(r'let (\w+) = entry\.insert\(new_connection\.clone\(\)\)', body)
    if m and m.group(1) != 'new_connection':
        body = re.sub(r'\b' + m.group(1) + r'\b', 'old_connection', body)
    for st in [x.strip() for x in body.split(';') if x.strip()]:
        for pat, name in STMT:
            if re.fullmatch(pat, st):
                out.append(name)
                break
        else:
            raise ValueError(f'registry: {what}: unrecognised statement `{st[:80]}`')
    return out

def item_registry(repo):
    cm = strip_comments(read(repo, 'crates/anemo/src/network/connection_manager.rs'))
    inner = block_after(cm, r'impl\s+ActivePeersInner\s*\{')
    add = block_after(inner, r'fn\s+add\s*\(\s*&mut self, own_peer_id: &PeerId, new_connection: Connection\s*\)\s*->\s*Option<Connection>')
    a = flat(strip_hooks(add))
    m = re.fullmatch(r'let peer_id = new_connection\.peer_id\(\); match self\.connections\.entry\(peer_id\) \{ Entry::Occupied\(mut entry\) => \{ if Self::simultaneous_dial_tie_breaking\( own_peer_id, &peer_id, entry\.get\(\)\.origin\(\), new_connection\.origin\(\), ?\) \{(.*?)\} else \{(.*?)\} \} Entry::Vacant\(entry\) => \{(.*?)\} \}(.*)', a)
    if not m:
        raise ValueError('registry: shape of ActivePeersInner::add')
    win, lose, vacant, tail = (stmts(m.group(i), f'add arm {i}') for i in (1, 2, 3, 4))
    # remove
    rm = flat(strip_hooks(block_after(inner, r'fn\s+remove\s*\(\s*&mut self, peer_id: &PeerId, reason: DisconnectReason\s*\)')))
    m = re.fullmatch(r'if let Some\(connection\) = self\.connections\.remove\(peer_id\) \{ connection\.close\(\); self\.send_event\(PeerEvent::LostPeer\(\*peer_id, reason\)\); \}', rm)
    if not m:
        raise ValueError('registry: shape of ActivePeersInner::remove: ' + rm[:120])
    rs = flat(strip_hooks(block_after(inner, r'fn\s+remove_with_stable_id\s*\(')))
    m = re.fullmatch(r'match self\.connections\.entry\(peer_id\) \{ Entry::Occupied\(entry\) => \{ if entry\.get\(\)\.stable_id\(\) == stable_id \{ let \(peer_id, connection\) = entry\.remove_entry\(\); connection\.close\(\); self\.send_event\(PeerEvent::LostPeer\(peer_id, reason\)\); \} \} Entry::Vacant\(_\) => \{\} \}', rs)
    if not m:
        raise ValueError('registry: shape of remove_with_stable_id: ' + rs[:160])
    sub = flat(strip_hooks(block_after(inner, r'fn\s+subscribe\s*\(\s*&self\s*\)')))
    if sub != 'let peers = self.peers(); let receiver = self.peer_event_sender.subscribe(); (receiver, peers)':
        raise ValueError('registry: shape of ActivePeersInner::subscribe: ' + sub[:120])
    outer = block_after(cm, r'impl\s+ActivePeers\s*\{')
    osub = flat(block_after(outer, r'pub fn subscribe\s*\(\s*&self\s*\)'))
    if osub != 'self.inner().subscribe()':
        raise ValueError('registry: ActivePeers::subscribe must take the lock once: ' + osub[:120])
    for fn, want in [('remove', 'self.inner_mut().remove(peer_id, reason)'), ('remove_with_stable_id', 'self.inner_mut() .remove_with_stable_id(peer_id, stable_id, reason)'), ('add', 'self.inner_mut().add(own_peer_id, new_connection)'), ('get', 'self.inner().get(peer_id)'), ('peers', 'self.inner().peers()')]:
        b = flat(block_after(outer, r'fn ' + fn + r'\s*\('))
        if b.replace(' ', '') != want.replace(' ', ''):
            raise ValueError(f'registry: ActivePeers::{fn} wrapper: {b[:100]}')
    # the count the admission decision reads: ALL established connections, inbound and outbound alike
    ln = flat(block_after(inner, r'fn\s+len\s*\(\s*&self\s*\)'))
    if ln != 'self.connections.len()':
        raise ValueError('registry: ActivePeersInner::len must count every connection: ' + ln[:120])
    oln = flat(block_after(outer, r'fn\s+len\s*\(\s*&self\s*\)'))
    if oln != 'self.inner().len()':
        raise ValueError('registry: ActivePeers::len wrapper: ' + oln[:100])
    g = flat(block_after(inner, r'fn\s+get\s*\(\s*&self, peer_id: &PeerId\s*\)'))
    if g != 'self.connections.get(peer_id).cloned()':
        raise ValueError('registry: ActivePeersInner::get: ' + g[:100])
    # the handler's exit: deregister (by stable id, whatever the reason) before tearing down in-flight requests
    rh = strip_comments(read(repo, 'crates/anemo/src/network/request_handler.rs'))
    st = flat(strip_hooks(block_after(rh, r'pub\s+async\s+fn\s+start\s*\(\s*self\s*\)')))
    tailm = re.search(r'\}; (self\.active_peers\.remove_with_stable_id\( self\.connection\.peer_id\(\), self\.connection\.stable_id\(\), crate::types::DisconnectReason::from_quinn_error\(&close_reason\), ?\); inflight_requests\.shutdown\(\)\.await;)\s*$', st)
    if not tailm:
        raise ValueError('registry: handler exit sequence: ' + st[-260:])
    if st.count('active_peers.') != 1:
        raise ValueError('registry: handler touches the active peers elsewhere')
    # identity of a connection = first certificate of the chain
    co = strip_comments(read(repo, 'crates/anemo/src/connection.rs'))
    tp = flat(block_after(co, r'fn\s+try_peer_id\s*\('))
    if not re.search(r'\.downcast::<Vec<[^>]*CertificateDer[^>]*>>\(\) \.unwrap\(\)\[0\]', tp) or '.pop()' in tp or '.last()' in tp:
        raise ValueError('registry: try_peer_id: ' + tp[:200])
    L = lambda xs: '[' + ', '.join('.' + x for x in xs) + ']'
    return (f'def addWinEffs : List AddEff := {L(win)}\n'
            f'def addLoseEffs : List AddEff := {L(lose)}\n'
            f'def addVacantEffs : List AddEff := {L(vacant)}\n'
            f'def addTailEffs : List AddEff := {L(tail)}\n'
            '/-- `remove`: take the entry out, close it, announce LostPeer(reason); `remove_with_stable_id`: the same,\n'
            'only when the stored connection has that stable id; `subscribe`: snapshot and receiver under one lock;\n'
            'the handler deregisters by stable id before it tears its in-flight requests down; the identity of a\n'
            'connection is read from the first certificate of the chain (the one the verifiers authenticate) -/\n'
            'def registryShapeChecked : Bool := true\n')


ELIG = [
    (r'matches!\(peer_info\.affinity, PeerAffinity::High\)', 'isHigh'),
    (r'peer_info\.peer_id != self\.endpoint\.peer_id\(\)', 'notSelf'),
    (r'!peer_info\.address\.is_empty\(\)', 'hasAddress'),
    (r'!active_peers\.contains\(&peer_info\.peer_id\)', 'notConnected'),
    (r'!self\.pending_dials\.contains_key\(&peer_info\.peer_id\)', 'noPendingDial'),
    (r'self\.dial_backoff_states \.get\(&peer_info\.peer_id\) \.map\(\|state\| now > state\.backoff\) \.unwrap_or\(true\)', 'pastBackoffStrict'),
    (r'self\.dial_backoff_states \.get\(&peer_info\.peer_id\) \.map\(\|state\| now >= state\.backoff\) \.unwrap_or\(true\)', 'pastBackoffLax'),
]


def item_tick(repo):
    """the connectivity check (C13): eligibility clauses, dial budget, backoff bookkeeping, address rotation"""
    cm = strip_comments(read(repo, 'crates/anemo/src/network/connection_manager.rs'))
    f = flat(strip_hooks(block_after(cm, r'fn\s+handle_connectivity_check\s*\(\s*&mut self, now: std::time::Instant\s*\)')))
    m = re.search(r'\.filter\(\|peer_info\| \{ (.*?) \}\) \.cloned\(\) \.collect\(\)', f)
    if not m:
        raise ValueError('tick: eligibility filter')
    # the check is exactly: drain finished dials; compute the eligible set; compute the budget; dial
    heads = [x.split('(')[0].split('{')[0].strip()[:40] for x in split_stmts(f)]
    if heads != ['self.pending_dials .retain', 'let eligible: Vec<_> =', 'let number_to_dial = std::cmp::min', 'for mut peer in eligible.into_iter'] or f.count('pending_dials') != 3 or f.count('dial_backoff_states') != 4:
        raise ValueError('tick: statements of handle_connectivity_check: ' + str(heads)[:160])
    clauses = []
    for c in [x.strip() for x in m.group(1).split('&&')]:
        for pat, name in ELIG:
            if re.fullmatch(pat, c):
                clauses.append(name)
                break
        else:
            raise ValueError('tick: unrecognised eligibility clause `' + c[:100] + '`')
    if 'let known_peers = self.known_peers.inner(); known_peers .values() .filter' not in f.replace('  ', ' '):
        raise ValueError('tick: candidates are not the known-peer table')
    b = re.search(r'let number_to_dial = std::cmp::min\( eligible\.len\(\), self\.config \.max_concurrent_outstanding_connecting_connections\(\) \.saturating_sub\(self\.(\w+)\.len\(\)\), ?\);', f)
    if not b or b.group(1) not in ('pending_connections', 'pending_dials'):
        raise ValueError('tick: dial budget')
    budget = 'pendingConnections' if b.group(1) == 'pending_connections' else 'pendingDials'
    if not re.search(r'\.saturating_sub\(self\.\w+\.len\(\)\), ?\); for mut peer in eligible\.into_iter\(\)\.take\(number_to_dial\) \{', f):
        raise ValueError('tick: the dial loop must take exactly number_to_dial, computed just before it')
    idx = re.search(r'let idx = self \.dial_backoff_states \.get\(&peer\.peer_id\) \.map\(\|state\| state\.attempts\) \.unwrap_or\(0\) % peer\.address\.len\(\); let address = peer\.address\.remove\(idx\); self\.dial_peer\(address, Some\(peer\.peer_id\), sender\); self\.pending_dials\.insert\(peer\.peer_id, receiver\);', f)
    ok_arm = re.search(r'Ok\(Ok\(returned_peer_id\)\) => \{ (?:debug_assert_eq!\(peer_id, &returned_peer_id\); )?self\.dial_backoff_states\.remove\(peer_id\); false \}', f)
    args = r'\( now, self\.config\.connection_backoff\(\), self\.config\.max_connection_backoff\(\), ?\)'
    fail_arm = re.search(r'Ok\(Err\(_\)\) => \{ match self\.dial_backoff_states\.entry\(\*peer_id\) \{ Entry::Occupied\(mut entry\) => \{ entry\.get_mut\(\)\.update' + args + r'; \} Entry::Vacant\(entry\) => \{ entry\.insert\(DialBackoffState::new' + args + r'\); \} \} false \}', f)
    empty_arm = 'Err(oneshot::error::TryRecvError::Empty) => true' in f
    bs = flat(block_after(cm, r'impl\s+DialBackoffState\s*\{'))
    new_ok = re.search(r'fn new\( now: std::time::Instant, backoff_step: std::time::Duration, max_backoff: std::time::Duration, ?\) -> Self \{ let mut state = Self \{ backoff: now, attempts: 0, ?\}; state\.update\(now, backoff_step, max_backoff\); state \}', bs)
    upd_ok = re.search(r'fn update\( &mut self, now: std::time::Instant, backoff_step: std::time::Duration, max_backoff: std::time::Duration, ?\) \{ self\.attempts \+= 1; let backoff_duration = std::cmp::min\( max_backoff, backoff_step\.saturating_mul\(self\.attempts\.try_into\(\)\.unwrap_or\(u32::MAX\)\), ?\); self\.backoff = now \+ backoff_duration; \}', bs)
    # the check is driven by a fixed-period interval, not by a timer that other events restart
    st = flat(strip_hooks(block_after(cm, r'pub\s+async\s+fn\s+start\s*\(\s*mut\s+self\s*\)')))
    interval_ok = bool(re.search(r'let mut interval = tokio::time::interval\(self\.config\.connectivity_check_interval\(\) \+ jitter\);', st)) and bool(re.search(r'now = interval\.tick\(\) => \{ self\.handle_connectivity_check\(now\.into_std\(\)\); \}', st))
    bl = lambda x: 'true' if x else 'false'
    return ('def eligibleClausesGen : List EligClause := [' + ', '.join('.' + c for c in clauses) + ']\n'
            f'def budgetMinusGen : BudgetArg := .{budget}\n'
            f'def addressRotationGen : Bool := {bl(idx)}\n'
            f'def successClearsBackoffGen : Bool := {bl(ok_arm)}\n'
            f'def failureUpdatesBackoffGen : Bool := {bl(fail_arm and empty_arm)}\n'
            f'def backoffFormulaGen : Bool := {bl(new_ok and upd_ok)}\n'
            f'def fixedPeriodTickGen : Bool := {bl(interval_ok)}\n')


def split_stmts(body):
    """top-level statements of a (flattened) block"""
    out, depth, cur = [], 0, ''
    n = len(body)
    for i, ch in enumerate(body):
        if ch in '({[':
            depth += 1
        elif ch in ')}]':
            depth -= 1
        if ch == ';' and depth == 0:
            if cur.strip():
                out.append(cur.strip())
            cur = ''
            continue
        cur += ch
        if ch == '}' and depth == 0 and re.match(r'(if|match|for|while|loop)\b', cur.strip()):
            rest = body[i + 1:].lstrip()
            if rest and not re.match(r'(else\b|\.|\?|;)', rest):
                out.append(cur.strip())
                cur = ''
    if cur.strip():
        out.append(cur.strip())
    return out


SERVE = [
    (r'let mut request = read_request\(&mut self\.recv_stream\)\.await\?', 'readRequest'),
    (r'request\.extensions_mut\(\)\.insert\(self\.connection\.peer_id\(\)\)', 'stampPeerId'),
    (r'request\.extensions_mut\(\)\.insert\(self\.connection\.origin\(\)\)', 'stampOrigin'),
    (r'request \.extensions_mut\(\) \.insert\(self\.connection\.remote_address\(\)\)', 'stampRemoteAddr'),
    (r'request\.extensions_mut\(\)\.insert\(crate::Direction::Inbound\)', 'stampInbound'),
    (r'let response = \{ let handler = self\.service\.oneshot\(request\); let stopped = self\.send_stream\.get_mut\(\)\.stopped\(\); tokio::select! \{ response = handler => response\.expect\("Infallible"\), _ = stopped => return Err\(anyhow::anyhow!\("send_stream closed by remote"\)\), \} \}', 'raceHandlerWithStop'),
    (r'write_response\(&mut self\.send_stream, response\)\.await\?', 'writeResponse'),
    (r'self\.send_stream\.get_mut\(\)\.finish\(\)\?', 'finishSend'),
    (r'self\.send_stream\.get_mut\(\)\.stopped\(\)\.await\?', 'awaitStopped'),
    (r'Ok\(\(\)\)', 'returnOk'),
]
CALL = [
    (r'let \(send_stream, recv_stream\) = self\.connection\.open_bi\(\)\.await\?', 'openBi'),
    (r'let mut send_stream = FramedWrite::new\(send_stream, network_message_frame_codec\(&self\.config\)\)', 'frameSend'),
    (r'let mut recv_stream = FramedRead::new\(recv_stream, network_message_frame_codec\(&self\.config\)\)', 'frameRecv'),
    (r'write_request\(&mut send_stream, request\)\.await\?', 'writeRequest'),
    (r'send_stream\.get_mut\(\)\.finish\(\)\?', 'finishSend'),
    (r'let mut response = read_response\(&mut recv_stream\)\.await\?', 'readResponse'),
    (r'response\.extensions_mut\(\)\.insert\(self\.peer_id\(\)\)', 'stampResponsePeerId'),
    (r'Ok\(response\)', 'returnResponse'),
]


def steps(body, table, what):
    out = []
    for st in split_stmts(flat(strip_hooks(body))):
        for pat, name in table:
            if re.fullmatch(pat, st):
                out.append(name)
                break
        else:
            raise ValueError(f'rpcpath: {what}: unrecognised statement `{st[:110]}`')
    return out


def item_rpcpath(repo):
    """how one RPC is served and issued (C02, C06, C12, C01): the statement sequences of
    BiStreamRequestHandler::do_handle and Peer::do_rpc, and the shapes around them"""
    rh = strip_comments(read(repo, 'crates/anemo/src/network/request_handler.rs'))
    pe = strip_comments(read(repo, 'crates/anemo/src/network/peer.rs'))
    nm = strip_comments(read(repo, 'crates/anemo/src/network/mod.rs'))
    serve = steps(block_after(rh, r'async\s+fn\s+do_handle\s*\(\s*mut\s+self\s*\)\s*->\s*Result<\(\)>'), SERVE, 'do_handle')
    call = steps(block_after(pe, r'async\s+fn\s+do_rpc\s*\(\s*&self, request: Request<Bytes>\s*\)\s*->\s*Result<Response<Bytes>>'), CALL, 'do_rpc')
    hb = flat(block_after(rh, r'async\s+fn\s+handle\s*\(\s*self\s*\)'))
    if not re.fullmatch(r'if let Err\(e\) = self\.do_handle\(\)\.await \{ (trace|debug)!\([^;]*\); \}', hb):
        raise ValueError('rpcpath: BiStreamRequestHandler::handle: ' + hb[:120])
    # the accept loop: uni streams dropped, a task per bi stream, datagrams ignored
    st = flat(re.sub(r'#\s*\[cfg\(bmwill_anemo_verif\)\]\s*crate::verif::point(_ctx)?\([^;]*\);', '', block_after(rh, r'pub\s+async\s+fn\s+start\s*\(\s*self\s*\)')))
    if not re.search(r'uni = self\.connection\.accept_uni\(\) => \{ match uni \{ Ok\(recv_stream\) => trace!\("[^"]*", recv_stream\.id\(\)\), Err\(e\) => \{ trace!\("[^"]*"\); break e; \} \} \}', st):
        raise ValueError('rpcpath: accept loop, uni-stream arm (the stream must simply be dropped)')
    if not re.search(r'bi = self\.connection\.accept_bi\(\) => \{ match bi \{ Ok\(\(bi_tx, bi_rx\)\) => \{ trace!\("[^"]*", bi_tx\.id\(\)\); let request_handler = BiStreamRequestHandler::new\(&self\.config, self\.connection\.clone\(\), self\.service\.clone\(\), bi_tx, bi_rx\); inflight_requests\.spawn\(request_handler\.handle\(\)\); \} Err\(e\) => \{ trace!\("[^"]*"\); break e; \} \} \}', st):
        raise ValueError('rpcpath: accept loop, bi-stream arm')
    if not re.search(r'datagram = self\.connection\.read_datagram\(\) => \{ match datagram \{ Ok\(datagram\) => trace!\("[^"]*", datagram\.len\(\)\), Err\(e\) => \{ trace!\("[^"]*"\); break e; \} \} \}', st):
        raise ValueError('rpcpath: accept loop, datagram arm')
    # Network::rpc: one lookup, one call, no retry
    nr = flat(block_after(nm, r'async\s+fn\s+rpc\s*\(\s*&self, peer_id: PeerId, request: Request<Bytes>\s*\)\s*->\s*Result<Response<Bytes>>'))
    if not re.fullmatch(r'self\.peer\(peer_id\) \.ok_or_else\(\|\| anyhow!\("not connected to peer \{peer_id\}"\)\)\? \.rpc\(request\) \.await', nr):
        raise ValueError('rpcpath: NetworkInner::rpc: ' + nr[:160])
    pc = flat(block_after(pe, r'fn\s+call\s*\(\s*&mut self, mut request: Request<Bytes>\s*\)\s*->\s*Self::Future'))
    if not re.fullmatch(r'request\.extensions_mut\(\)\.insert\(self\.peer_id\(\)\); request\.extensions_mut\(\)\.insert\(crate::Direction::Outbound\); let peer = self\.clone\(\); let inner = tower::service_fn\(move \|request\| \{ let peer = peer\.clone\(\); async move \{ peer\.do_rpc\(request\)\.await \} \}\) \.boxed\(\); let mut service = self\.outbound_request_layer\.layer\(inner\); service\.call\(request\)', pc):
        raise ValueError('rpcpath: Peer::call: ' + pc[:200])
    L = lambda xs: '[' + ', '.join('.' + x for x in xs) + ']'
    return (f'def serveStepsGen : List RpcStep := {L(serve)}\n'
            f'def callStepsGen : List RpcStep := {L(call)}\n'
            'def rpcPathShapeChecked : Bool := true\n')


def impl_block(src, header_re):
    return block_after(src, header_re)


TLS_CLIENT_CERT = [
    (r'let \(cert, chain, trustroots\) = prepare_for_self_signed\(end_entity, intermediates\)\?', 'selfSignedAnchor'),
    (r'let verified_cert = cert \.verify_for_usage\( SUPPORTED_SIG_ALGS, &trustroots, chain, now, webpki::KeyUsage::client_auth\(\), None, None, ?\) \.map_err\(pki_error\)\?', 'verifyChainEd25519'),
    (r'let subject_name_refs = self \.server_names \.iter\(\) \.map\(\|name\| ServerName::try_from\(name\.as_str\(\)\)\) \.collect::<Result<Vec<_>, _>>\(\) \.map_err\(\|_\| rustls::Error::UnsupportedNameType\)\?', 'parseAcceptedNames'),
    (r'if subject_name_refs\.into_iter\(\)\.any\(\|name\| \{ verified_cert \.end_entity\(\) \.verify_is_valid_for_subject_name\(&name\) \.is_ok\(\) \}\) \{ Ok\(ClientCertVerified::assertion\(\)\) \} else \{ Err\(rustls::Error::General\("no valid subject name"\.into\(\)\)\) \}', 'certValidForAnAcceptedName'),
]
TLS_SERVER_CERT = [
    (r'let \(cert, chain, trustroots\) = prepare_for_self_signed\(end_entity, intermediates\)\?', 'selfSignedAnchor'),
    (r'let dns_name = match server_name \{ ServerName::DnsName\(dns_name\) => dns_name, _ => return Err\(rustls::Error::UnsupportedNameType\), \}', 'dialedNameIsDns'),
    (r'self\.server_names \.iter\(\) \.find\(\|name\| name\.as_str\(\) == dns_name\.as_ref\(\)\) \.ok_or\(rustls::Error::UnsupportedNameType\)\?', 'dialedNameIsOwn'),
    (r'let verified_cert = cert \.verify_for_usage\( SUPPORTED_SIG_ALGS, &trustroots, chain, now, webpki::KeyUsage::server_auth\(\), None, None, ?\) \.map_err\(pki_error\)\?', 'verifyChainEd25519'),
    (r'verified_cert \.end_entity\(\) \.verify_is_valid_for_subject_name\(server_name\) \.map_err\(pki_error\) \.map\(\|_\| ServerCertVerified::assertion\(\)\)', 'certValidForDialedName'),
]
TLS_PINNED = [
    (r'let peer_id = peer_id_from_certificate\(end_entity\)\?', 'identityOfEndEntity'),
    (r'if peer_id != self\.1 \{ return Err\(.*\); \}', 'pinMustMatch'),
    (r'self\.0 \.verify_server_cert\(end_entity, intermediates, server_name, ocsp_response, now\)', 'delegateToCertVerifier'),
]


def tls_steps(body, table, what):
    out = []
    for st in split_stmts(flat(body)):
        for pat, name in table:
            if re.fullmatch(pat, st):
                out.append(name)
                break
        else:
            raise ValueError(f'tls: {what}: unrecognised statement `{st[:110]}`')
    return out


def item_tls(repo):
    """the certificate verifiers (C01, C03, C14): the statement sequences of the three `verify_*_cert`
    functions, the handshake-signature checks, the algorithm table, mandatory client authentication"""
    c = strip_comments(read(repo, 'crates/anemo/src/crypto.rs'))
    cut = c.find('#[cfg(bmwill_anemo_verif)]\npub mod verif')
    if cut > 0:
        c = c[:cut]
    f = flat(c)
    if 'static SUPPORTED_SIG_ALGS: &[&dyn SignatureVerificationAlgorithm] = &[webpki::ring::ED25519];' not in f:
        raise ValueError('tls: SUPPORTED_SIG_ALGS')
    if 'static SUPPORTED_ALGORITHMS: WebPkiSupportedAlgorithms = WebPkiSupportedAlgorithms { all: SUPPORTED_SIG_ALGS, mapping: &[(rustls::SignatureScheme::ED25519, SUPPORTED_SIG_ALGS)], };' not in f:
        raise ValueError('tls: SUPPORTED_ALGORITHMS')
    cc = impl_block(c, r'impl\s+ClientCertVerifier\s+for\s+CertVerifier\s*\{')
    sc = impl_block(c, r'impl\s+ServerCertVerifier\s+for\s+CertVerifier\s*\{')
    ec = impl_block(c, r'impl\s+ServerCertVerifier\s+for\s+ExpectedCertVerifier\s*\{')
    for blk, nm in [(cc, 'client'), (sc, 'server'), (ec, 'pinned')]:
        for ver in ['12', '13']:
            b = flat(block_after(blk, r'fn\s+verify_tls' + ver + r'_signature\s*\('))
            if b != f'rustls::crypto::verify_tls{ver}_signature(message, cert, dss, &SUPPORTED_ALGORITHMS)':
                raise ValueError(f'tls: {nm} verify_tls{ver}_signature: ' + b[:120])
        if flat(block_after(blk, r'fn\s+supported_verify_schemes\s*\(')) != 'SUPPORTED_ALGORITHMS.supported_schemes()':
            raise ValueError(f'tls: {nm} supported_verify_schemes')
    if flat(block_after(cc, r'fn\s+offer_client_auth\s*\(')) != 'true' or flat(block_after(cc, r'fn\s+client_auth_mandatory\s*\(')) != 'true':
        raise ValueError('tls: client authentication must be offered and mandatory')
    client = tls_steps(block_after(cc, r'fn\s+verify_client_cert\s*\('), TLS_CLIENT_CERT, 'verify_client_cert')
    server = tls_steps(block_after(sc, r'fn\s+verify_server_cert\s*\('), TLS_SERVER_CERT, 'verify_server_cert')
    pinned = tls_steps(block_after(ec, r'fn\s+verify_server_cert\s*\('), TLS_PINNED, 'pinned verify_server_cert')
    pf = flat(block_after(c, r'fn\s+prepare_for_self_signed<\'a>\s*\('))
    if pf != 'let cert = webpki::EndEntityCert::try_from(end_entity).map_err(pki_error)?; let root = webpki::anchor_from_trusted_cert(end_entity).map_err(pki_error)?; Ok((cert, intermediates, vec![root]))':
        raise ValueError('tls: prepare_for_self_signed: ' + pf[:160])
    pid = flat(block_after(c, r'fn\s+peer_id_from_certificate\s*\('))
    if not re.fullmatch(r'use x509_parser::\{certificate::X509Certificate, prelude::FromDer\}; let cert = X509Certificate::from_der\(certificate\.as_ref\(\)\) \.map_err\(.*?\)\?; let spki = cert\.1\.public_key\(\); let public_key_bytes = <ed25519::pkcs8::PublicKeyBytes as pkcs8::DecodePublicKey>::from_public_key_der\(spki\.raw\) \.map_err\(.*?\)\?; let peer_id = PeerId\(public_key_bytes\.to_bytes\(\)\); Ok\(peer_id\)', pid):
        raise ValueError('tls: peer_id_from_certificate')
    L = lambda xs: '[' + ', '.join('.' + x for x in xs) + ']'
    return (f'def verifyClientCertGen : List TlsStep := {L(client)}\n'
            f'def verifyServerCertGen : List TlsStep := {L(server)}\n'
            f'def verifyPinnedServerCertGen : List TlsStep := {L(pinned)}\n'
            'def tlsShapeChecked : Bool := true\n')


WIRE_W = [
    (r'write_version_frame\(send_stream\.get_mut\(\), (request|response)\.version\(\)\)\.await\?', 'versionFrame'),
    (r'let \(parts, body\) = (request|response)\.into_parts\(\)', 'splitParts'),
    (r'let raw_header = RawRequestHeader::from_header\(parts\)', 'rawHeader'),
    (r'let \(raw_header, _extensions\) = RawResponseHeader::from_header\(parts\)', 'rawHeaderDropExtensions'),
    (r'let mut buf = BytesMut::new\(\)', 'newBuffer'),
    (r'bincode::serialize_into\(\(&mut buf\)\.writer\(\), &raw_header\) \.expect\("serialization should not fail"\)', 'bincodeFixintHeader'),
    (r'send_stream\.send\(buf\.freeze\(\)\)\.await\?', 'sendHeaderFrame'),
    (r'send_stream\.send\(body\)\.await\?', 'sendBodyFrame'),
    (r'Ok\(\(\)\)', 'returnOk'),
]
WIRE_R = [
    (r'let version = read_version_frame\(recv_stream\.get_mut\(\)\)\.await\?', 'versionFrame'),
    (r'let header_buf = recv_stream \.next\(\) \.await \.ok_or_else\(\|\| anyhow!\("unexpected EOF"\)\)\?\?', 'recvHeaderFrameOrEof'),
    (r'let raw_header: RawRequestHeader = bincode::deserialize\(&header_buf\)\?', 'bincodeFixintHeader'),
    (r'let raw_header: RawResponseHeader = bincode::deserialize\(&header_buf\)\?', 'bincodeFixintHeader'),
    (r'let request_header = RequestHeader::from_raw\(raw_header, version\)', 'headerFromRaw'),
    (r'let response_header = ResponseHeader::from_raw\(raw_header, version\)\?', 'headerFromRawChecked'),
    (r'let body = recv_stream \.next\(\) \.await \.ok_or_else\(\|\| anyhow!\("unexpected EOF"\)\)\?\?', 'recvBodyFrameOrEof'),
    (r'let request = Request::from_parts\(request_header, body\.freeze\(\)\)', 'assemble'),
    (r'let response = Response::from_parts\(response_header, body\.freeze\(\)\)', 'assemble'),
    (r'Ok\((request|response)\)', 'returnMessage'),
]


def item_wirefmt(repo):
    """the framing of one message (C07, C15, C06): statement sequences of the four read/write functions,
    shapes of the version frame, the codec configuration and the connection handshake"""
    w = strip_comments(read(repo, 'crates/anemo/src/network/wire.rs'))
    for marker in ['#[cfg(test)]', '#[cfg(bmwill_anemo_verif)]']:
        cut = w.find(marker)
        if cut > 0:
            w = w[:cut]

    def seq(fn, table):
        body = block_after(w, r'async\s+fn\s+' + fn + r'\s*<')
        out = []
        for st in split_stmts(flat(body)):
            for pat, name in table:
                if re.fullmatch(pat, st):
                    out.append(name)
                    break
            else:
                raise ValueError(f'wirefmt: {fn}: unrecognised statement `{st[:110]}`')
        return out
    wreq, wresp, rreq, rresp = seq('write_request', WIRE_W), seq('write_response', WIRE_W), seq('read_request', WIRE_R), seq('read_response', WIRE_R)
    codec = flat(block_after(w, r'fn\s+network_message_frame_codec\s*\('))
    if codec != 'let mut builder = LengthDelimitedCodec::builder(); if let Some(max_frame_size) = config.max_frame_size() { builder.max_frame_length(max_frame_size); } builder.length_field_length(4).big_endian().new_codec()':
        raise ValueError('wirefmt: network_message_frame_codec: ' + codec[:160])
    # every framed reader/writer of the library is built from THAT codec (so the limit and the 4-byte prefix
    # apply to both directions on both ends), and no other length-delimited codec is constructed anywhere
    ctor = len(re.findall(r'LengthDelimitedCodec::(?:builder|new)\s*\(', w))
    for f in ['crates/anemo/src/network/peer.rs', 'crates/anemo/src/network/request_handler.rs']:
        t = strip_comments(read(repo, f))
        cut = t.find('#[cfg(test)]')
        if cut > 0:
            t = t[:cut]
        t = flat(t)
        ctor += len(re.findall(r'LengthDelimitedCodec::(?:builder|new)\s*\(', t))
        made = re.findall(r'Framed(?:Read|Write)::new\(\s*(\w+)\s*,\s*([^;]*?)\)\s*[,;]', t)
        if len(made) != 2 or sorted(m[0] for m in made) != ['recv_stream', 'send_stream'] or any(not re.fullmatch(r'network_message_frame_codec\((?:config|&self\.config)\)', m[1].strip()) for m in made):
            raise ValueError(f'wirefmt: {f}: framed streams are not built from network_message_frame_codec(config): {made}')
    if ctor != 1:
        raise ValueError(f'wirefmt: {ctor} constructions of a length-delimited codec (expected the one in network_message_frame_codec)')
    rv = flat(block_after(w, r'async\s+fn\s+read_version_frame\s*<'))
    if rv != 'let mut buf: [u8; 8] = [0; 8]; recv_stream.read_exact(&mut buf).await?; if &buf[0..=4] != ANEMO || buf[7] != 0 { bail!("Invalid Protocol Header"); } let version_be_bytes = [buf[5], buf[6]]; let version = u16::from_be_bytes(version_be_bytes); Version::new(version)':
        raise ValueError('wirefmt: read_version_frame: ' + rv[:160])
    wv = flat(block_after(w, r'async\s+fn\s+write_version_frame\s*<'))
    if wv != 'let mut buf: [u8; 8] = [0; 8]; buf[0..=4].copy_from_slice(ANEMO); buf[5..=6].copy_from_slice(&version.to_u16().to_be_bytes()); send_stream.write_all(&buf).await?; Ok(())':
        raise ValueError('wirefmt: write_version_frame: ' + wv[:160])
    hs = flat(block_after(w, r'async\s+fn\s+handshake\s*\('))
    if hs != 'match connection.origin() { crate::ConnectionOrigin::Inbound => { let mut send_stream = connection.open_uni().await?; write_version_frame(&mut send_stream, Version::V1).await?; send_stream.finish()?; send_stream.stopped().await?; } crate::ConnectionOrigin::Outbound => { let mut recv_stream = connection.accept_uni().await?; read_version_frame(&mut recv_stream).await?; } } Ok(connection)':
        raise ValueError('wirefmt: handshake: ' + hs[:200])
    # the header structs (field order is the wire order) and their conversions (extensions start empty, names
    # and values are copied as they are)
    rq = strip_comments(read(repo, 'crates/anemo/src/types/request.rs'))
    rs = strip_comments(read(repo, 'crates/anemo/src/types/response.rs'))
    ty = strip_comments(read(repo, 'crates/anemo/src/types/mod.rs'))
    checks = [
        (rq, r'#\[derive\(serde::Serialize, serde::Deserialize\)\] pub\(crate\) struct RawRequestHeader \{ pub route: String, pub headers: HeaderMap, \}', 'RawRequestHeader'),
        (rq, r'impl RawRequestHeader \{ pub fn from_header\(header: RequestHeader\) -> Self \{ Self \{ route: header\.route, headers: header\.headers, \} \} \}', 'RawRequestHeader::from_header'),
        (rq, r'pub\(crate\) fn from_raw\(raw_header: RawRequestHeader, version: Version\) -> Self \{ Self \{ route: raw_header\.route, version, headers: raw_header\.headers, extensions: Default::default\(\), \} \}', 'RequestHeader::from_raw'),
        (rs, r'#\[derive\(serde::Serialize, serde::Deserialize\)\] pub\(crate\) struct RawResponseHeader \{ pub status: u16, pub headers: HeaderMap, \}', 'RawResponseHeader'),
        (rs, r'impl RawResponseHeader \{ pub fn from_header\(header: ResponseHeader\) -> \(Self, Extensions\) \{ \( Self \{ status: header\.status\.to_u16\(\), headers: header\.headers, \}, header\.extensions, \) \} \}', 'RawResponseHeader::from_header'),
        (rs, r'pub\(crate\) fn from_raw\(raw_header: RawResponseHeader, version: Version\) -> Result<Self> \{ Ok\(Self \{ status: StatusCode::new\(raw_header\.status\)\?, version, headers: raw_header\.headers, extensions: Default::default\(\), \}\) \}', 'ResponseHeader::from_raw'),
        (ty, r'pub type HeaderMap = std::collections::HashMap<String, String>;', 'HeaderMap'),
    ]
    for src_, pat, nm in checks:
        if not re.search(pat, flat(src_)):
            raise ValueError('wirefmt: shape of ' + nm)
    L = lambda xs: '[' + ', '.join('.' + x for x in xs) + ']'
    return (f'def writeRequestGen : List WireStep := {L(wreq)}\n'
            f'def writeResponseGen : List WireStep := {L(wresp)}\n'
            f'def readRequestGen : List WireStep := {L(rreq)}\n'
            f'def readResponseGen : List WireStep := {L(rresp)}\n'
            'def wireShapeChecked : Bool := true\n')


def item_tower(repo):
    """anemo-tower layers (C18, C19, C20): the bodies of the three `call` functions and of the allow-list
    authorizer must have exactly the recognised shape; the statuses of the refusal paths are emitted"""
    def src(rel):
        t = strip_comments(read(repo, rel))
        cut = t.find('#[cfg(test)]')
        return t[:cut] if cut > 0 else t
    infl = src('crates/anemo-tower/src/inflight_limit.rs')
    c = flat(strip_hooks(block_after(infl, r'fn\s+call\s*\(\s*&mut self, req: Request<ReqBody>\s*\)\s*->\s*Self::Future')))
    want = ('let inflight = self.inflight.clone(); let max_inflight = self.max_inflight; let wait_mode = self.wait_mode; let mut inner = self.inner.clone(); '
            'let fut = async move { let peer_id = req.peer_id().ok_or_else(|| { anemo::rpc::Status::internal("inflight limiter missing request PeerId") })?; '
            'let semaphore = { let semaphore_entry = inflight .entry(*peer_id) .or_insert_with(|| Arc::new(Semaphore::new(max_inflight))); semaphore_entry.value().clone() }; '
            'let _permit = match wait_mode { WaitMode::Block => semaphore.acquire().await.map_err(|e| { anemo::rpc::Status::internal(format!( "failed to acquire inflight limiter permit: {e:?}" )) })?, '
            'WaitMode::ReturnError => semaphore.try_acquire().map_err(|e| match e { tokio::sync::TryAcquireError::Closed => { anemo::rpc::Status::new(StatusCode::InternalServerError) } '
            'tokio::sync::TryAcquireError::NoPermits => { anemo::rpc::Status::new(StatusCode::TooManyRequests) } })?, }; inner.call(req).await }; Box::pin(fut)')
    if c != want:
        raise ValueError('tower: InflightLimit::call')
    if flat(block_after(infl, r'fn\s+poll_ready\s*\(')) != 'self.inner.poll_ready(cx)':
        raise ValueError('tower: InflightLimit::poll_ready')
    rl = src('crates/anemo-tower/src/rate_limit.rs')
    c = flat(strip_hooks(block_after(rl, r'fn\s+call\s*\(\s*&mut self, req: Request<ReqBody>\s*\)\s*->\s*Self::Future')))
    want = ('let limiter = self.limiter.clone(); let clock = self.clock.clone(); let wait_mode = self.wait_mode; let mut inner = self.inner.clone(); '
            'let fut = async move { let peer_id = req.peer_id().ok_or_else(|| { anemo::rpc::Status::internal("rate limiter missing request PeerId") })?; '
            'match wait_mode { WaitMode::Block => limiter.until_key_ready(peer_id).await, WaitMode::ReturnError => { let now = clock.now(); '
            'if let Err(e) = limiter.check_key(peer_id) { let wait_time = e.wait_time_from(now); return Err(anemo::rpc::Status::new( anemo::types::response::StatusCode::TooManyRequests, ) '
            '.with_header(WAIT_NANOS_HEADER, format!("{}", wait_time.as_nanos()))); } } }; inner.call(req).await }; Box::pin(fut)')
    if c != want:
        raise ValueError('tower: RateLimit::call')
    if flat(block_after(rl, r'fn\s+poll_ready\s*\(')) != 'self.inner.poll_ready(cx)':
        raise ValueError('tower: RateLimit::poll_ready')
    au = src('crates/anemo-tower/src/auth/service.rs')
    c = flat(block_after(au, r'fn\s+call\s*\(\s*&mut self, mut request: Request<Bytes>\s*\)\s*->\s*Self::Future'))
    if c != 'match self.auth.authorize(&mut request) { Ok(()) => ResponseFuture::future(self.inner.call(request)), Err(response) => ResponseFuture::invalid_auth(response), }':
        raise ValueError('tower: RequireAuthorization::call')
    fu = flat(src('crates/anemo-tower/src/auth/future.rs'))
    for piece in ['pub(super) fn future(future: F) -> Self { Self { kind: Kind::Future { future }, } }',
                  'pub(super) fn invalid_auth(response: Response<Bytes>) -> Self { Self { kind: Kind::Error { response: Some(response), }, } }',
                  'match self.project().kind.project() { KindProj::Future { future } => future.poll(cx), KindProj::Error { response } => { let response = response.take().unwrap(); Poll::Ready(Ok(response)) } }']:
        if piece not in fu:
            raise ValueError('tower: auth ResponseFuture')
    am = src('crates/anemo-tower/src/auth/mod.rs')
    a = flat(block_after(am, r'fn\s+authorize\s*\(\s*&self, request: &mut Request<Bytes>\s*\)\s*->\s*Result<\(\), Response<Bytes>>\s*\{\s*use'))
    m = re.search(r'impl AuthorizeRequest for AllowedPeers \{ fn authorize\(&self, request: &mut Request<Bytes>\) -> Result<\(\), Response<Bytes>> \{ use anemo::types::response::\{IntoResponse, StatusCode\}; let peer_id = request \.peer_id\(\) \.ok_or_else\(\|\| StatusCode::(\w+)\.into_response\(\)\)\?; if self\.allowed_peers\.contains\(peer_id\) \{ Ok\(\(\)\) \} else \{ Err\(StatusCode::(\w+)\.into_response\(\)\) \} \} \}', flat(am))
    if not m:
        raise ValueError('tower: AllowedPeers::authorize')
    if 'allowed_peers: std::collections::HashSet<anemo::PeerId>' not in flat(am) or 'Self { allowed_peers: peers.into_iter().collect(), }' not in flat(am):
        raise ValueError('tower: AllowedPeers::new')
    return (f'def allowMissingSenderStatus : StatusCode := .{m.group(1)}\n'
            f'def allowUnlistedSenderStatus : StatusCode := .{m.group(2)}\n'
            'def inflightRefusalStatus : StatusCode := .TooManyRequests\n'
            'def rateRefusalStatus : StatusCode := .TooManyRequests\n'
            'def towerShapeChecked : Bool := true\n')


def item_peerid(repo):
    """PeerId: equality, hashing and order are the derived (bytewise) ones -- the registry, the tie-break, the
    allow-list and the per-peer tables of the tower layers all key on them"""
    t = flat(strip_comments(read(repo, 'crates/anemo/src/types/peer_id.rs')))
    m = re.search(r'#\[derive\(([^\)]*)\)\]\s*pub struct PeerId\(pub \[u8; PEER_ID_LENGTH\]\);', t)
    if not m or not {'Hash', 'PartialEq', 'Eq', 'PartialOrd', 'Ord'} <= {x.strip() for x in m.group(1).split(',')}:
        m2 = re.search(r'(#\[derive\([^\]]*\)\]\s*)?pub struct PeerId[^;{]*[;{]', t)
        raise ValueError('peerid: ' + (m2.group(0) if m2 else 'struct PeerId not found')[:160])
    if 'const PEER_ID_LENGTH: usize = 32;' not in t:
        raise ValueError('peerid: PEER_ID_LENGTH')
    for bad in ['impl PartialEq for PeerId', 'impl Hash for PeerId', 'impl std::hash::Hash for PeerId', 'impl Ord for PeerId', 'impl PartialOrd for PeerId', 'impl std::cmp::PartialEq for PeerId']:
        if bad in t:
            raise ValueError('peerid: hand-written ' + bad)
    return 'def peerIdShapeChecked : Bool := true\n'


def item_timeouts(repo):
    """request deadlines (C11): header parsing, the min rule of both layers, what happens at the deadline,
    and the wiring of the configured defaults into every network"""
    def src(rel):
        t = strip_comments(read(repo, rel))
        cut = t.find('#[cfg(test)]')
        return t[:cut] if cut > 0 else t
    m = flat(src('crates/anemo/src/middleware/timeout/mod.rs'))
    if 'pub(crate) fn try_parse_timeout(headers: &HeaderMap) -> Result<Option<Duration>, &str> { match headers.get(header::TIMEOUT) { Some(val) => { let nanoseconds = val.parse::<u64>().map_err(|_| val.as_ref())?; let duration = Duration::from_nanos(nanoseconds); Ok(Some(duration)) } None => Ok(None), } }' not in m:
        raise ValueError('timeouts: try_parse_timeout')
    if 'pub(crate) fn duration_to_timeout(duration: Duration) -> String { let nanoseconds: u64 = duration.as_nanos().try_into().unwrap_or(u64::MAX); nanoseconds.to_string() }' not in m:
        raise ValueError('timeouts: duration_to_timeout')
    call = ('let request_timeout = super::try_parse_timeout(req.headers()).unwrap_or_else(|e| { None }); '
            'let timeout_duration = match (request_timeout, self.default_timeout) { (None, None) => None, (Some(dur), None) => Some(dur), (None, Some(dur)) => Some(dur), '
            '(Some(request), Some(default)) => { let shorter_duration = std::cmp::min(request, default); Some(shorter_duration) } }; '
            'ResponseFuture { inner: self.inner.call(req), sleep: timeout_duration.map(tokio::time::sleep), }')
    for rel, at_deadline in [('crates/anemo/src/middleware/timeout/inbound.rs', 'let response = Response::new(Bytes::new()).with_status(StatusCode::RequestTimeout); return Poll::Ready(Ok(response));'),
                             ('crates/anemo/src/middleware/timeout/outbound.rs', 'return Poll::Ready(Err(TimeoutExpired(()).into()));')]:
        t = src(rel)
        c = flat(re.sub(r'tracing::trace!\([^;]*\);', '', block_after(t, r'fn\s+call\s*\(\s*&mut self, req: Request<ReqBody>\s*\)\s*->\s*Self::Future')))
        if c != call:
            raise ValueError('timeouts: call of ' + rel.split('/')[-1] + ': ' + c[:120])
        pl = flat(block_after(t, r'fn\s+poll\s*\(\s*self: Pin<&mut Self>, cx: &mut Context<\'_>\s*\)\s*->\s*Poll<Self::Output>'))
        if not re.fullmatch(r'let this = self\.project\(\); if let Poll::Ready\(result\) = this\.inner\.poll\(cx\) \{ return Poll::Ready\(result(\.map_err\(Into::into\))?\); \} if let Some\(sleep\) = this\.sleep\.as_pin_mut\(\) \{ futures::ready!\(sleep\.poll\(cx\)\); ' + re.escape(at_deadline) + r' \} Poll::Pending', pl):
            raise ValueError('timeouts: ResponseFuture::poll of ' + rel.split('/')[-1])
    nm = flat(strip_comments(read(repo, 'crates/anemo/src/network/mod.rs')))
    if 'let outbound_request_layer = { let builder = ServiceBuilder::new() .layer(timeout::outbound::TimeoutLayer::new( config.outbound_request_timeout(), )); if let Some(layer) = self.outbound_request_layer.take() { BoxLayer::new(builder.layer(layer).into_inner()) } else { BoxLayer::new(builder.into_inner()) } };' not in nm:
        raise ValueError('timeouts: wiring of the outbound default')
    if 'let service = ServiceBuilder::new() .layer(timeout::inbound::TimeoutLayer::new( config.inbound_request_timeout(), )) .layer(AddExtensionLayer::new(NetworkRef(weak.clone()))) .service(service) .boxed_clone();' not in nm:
        raise ValueError('timeouts: wiring of the inbound default')
    return 'def timeoutShapeChecked : Bool := true\n'


def item_router(repo):
    """routing (C16): the statement sequences of Router::{route, merge, route_layer, call} and the matcher"""
    r = strip_comments(read(repo, 'crates/anemo/src/routing/mod.rs'))
    cut = r.find('#[cfg(test)]')
    if cut > 0:
        r = r[:cut]
    f = flat(r)
    pieces = {
        'route': 'if path.is_empty() { panic!("Paths must start with a `/`. Use \\"/\\" for root routes"); } else if !path.starts_with(\'/\') { panic!("Paths must start with a `/`"); } if <dyn std::any::Any>::downcast_ref::<Self>(&service).is_some() { panic!("Invalid route: `Router::route` cannot be used with `Router`s.") } let id = RouteId::next(); let service = try_downcast::<Route, _>(service).unwrap_or_else(|service| Route::new(service)); if let Err(err) = self.matcher.insert(path, id) { panic!("Invalid route: {err}"); } self.routes.insert(id, service); self',
        'merge': 'let Router { routes, matcher, fallback, } = other.into(); for (id, route) in routes { let path = matcher .route_id_to_path .get(&id) .expect("no path for route id. This is a bug in anemo. Please file an issue"); self = self.route(path, route); } let _fallback = fallback; self',
        'route_layer': 'let Router { routes, matcher, fallback, } = self; let routes = routes .into_iter() .map(|(id, route)| { let route = Route::new(layer.layer(route)); (id, route) }) .collect(); Router { routes, matcher, fallback, }',
        'call': 'use matchit::MatchError; let path = req.route(); match self.matcher.at(path) { Ok(match_) => { let route = self .routes .get(match_.value) .expect("no route for id; this is a bug"); route.oneshot_inner(req) } Err(MatchError::MissingTrailingSlash) | Err(MatchError::ExtraTrailingSlash) | Err(MatchError::NotFound) => self.fallback.oneshot_inner(req), }',
        'new': 'Self { routes: Default::default(), matcher: Default::default(), fallback: Route::new(not_found::NotFound), }',
    }
    heads = {'route': r'pub fn route<T>\(mut self, path: &str, service: T\) -> Self', 'merge': r'pub fn merge<R>\(mut self, other: R\) -> Self',
             'route_layer': r'pub fn route_layer<L>\(self, layer: L\) -> Self', 'call': r'fn call\(&mut self, req: Request<Bytes>\) -> Self::Future', 'new': r'pub fn new\(\) -> Self'}
    for k, want in pieces.items():
        b = flat(block_after(r, heads[k]))
        if b != want:
            raise ValueError('router: Router::' + k + ': ' + b[:140])
    mi = flat(block_after(r, r'fn insert\(\s*&mut self,\s*path: impl Into<String>,\s*val: RouteId,?\s*\)'))
    if mi != 'let path = path.into(); self.inner.insert(&path, val)?; let shared_path: Arc<str> = path.into(); self.route_id_to_path.insert(val, shared_path.clone()); self.path_to_route_id.insert(shared_path, val); Ok(())':
        raise ValueError('router: RouteMatcher::insert: ' + mi[:200])
    rid = flat(block_after(r, r'impl\s+RouteId\s*\{'))
    if rid != 'fn next() -> Self { use std::sync::atomic::{AtomicU32, Ordering}; static ID: AtomicU32 = AtomicU32::new(0); let id = ID.fetch_add(1, Ordering::Relaxed); if id == u32::MAX { panic!("Over `u32::MAX` routes created. If you need this, please file an issue."); } Self(id) }':
        raise ValueError('router: RouteId::next (route ids must be unique process-wide): ' + rid[:160])
    rt = flat(strip_comments(read(repo, 'crates/anemo/src/routing/route.rs')))
    for piece in ['pub(super) fn new<T>(svc: T) -> Self where T: Service<Request<Bytes>, Response = Response<Bytes>, Error = Infallible> + Clone + Send + \'static, T::Future: Send + \'static, { Self(BoxCloneService::new(svc)) }',
                  'pub(crate) fn oneshot_inner( &self, req: Request<Bytes>, ) -> Oneshot<BoxCloneService<Request<Bytes>, Response<Bytes>, Infallible>, Request<Bytes>> { self.0.clone().oneshot(req) }',
                  'fn poll_ready( &mut self, _cx: &mut std::task::Context<\'_>, ) -> std::task::Poll<Result<(), Self::Error>> { std::task::Poll::Ready(Ok(())) }',
                  'fn call(&mut self, req: Request<Bytes>) -> Self::Future { self.oneshot_inner(req) }']:
        if piece not in rt:
            raise ValueError('router: routing/route.rs: ' + piece[:60])
    nf = flat(strip_comments(read(repo, 'crates/anemo/src/routing/not_found.rs')))
    if 'StatusCode::NotFound' not in nf:
        raise ValueError('router: NotFound fallback')
    # `Route::call` is `self.oneshot_inner(req)` and `oneshot_inner` is `self.0.clone().oneshot(req)` (both checked
    # above): the boxed service is driven to readiness on a fresh clone before it is called
    return ('def routerShapeChecked : Bool := true\n'
            '/-- `Route::call` polls the boxed service ready (on a fresh clone) before calling it -/\n'
            'def routeCallPollsInner : Bool := true\n')


def item_rpc(repo):
    """typed calls (C17): Status <-> Response conversion, client and server `unary`, the two codecs"""
    m = strip_comments(read(repo, 'crates/anemo/src/rpc/mod.rs'))
    f = flat(m)
    pieces = [
        ('Status::from_response', 'fn from_response<T>(response: Response<T>) -> Self { let peer_id = response.peer_id().copied(); let (parts, _body) = response.into_parts(); let message = parts .headers .get(crate::types::header::STATUS_MESSAGE) .cloned(); Self { status: parts.status, message, peer_id, headers: parts.headers, source: None, } }'),
        ('Status::into_response', 'fn into_response(self) -> Response<bytes::Bytes> { let mut response = self.status.into_response(); response.headers_mut().extend(self.headers); if let Some(message) = self.message { response .headers_mut() .insert(crate::types::header::STATUS_MESSAGE.to_owned(), message); } response }'),
        ('client unary', 'let request = { let (mut parts, body) = request.into_parts(); parts.headers.insert( crate::types::header::CONTENT_TYPE.to_owned(), codec.format_name().to_owned(), ); let mut encoder = codec.encoder(); let bytes = encoder .encode(body) .map_err(Into::into) .map_err(Status::from_error)?; Request::from_parts(parts, bytes) }; let response = self .inner .call(request) .await .map_err(Into::into) .map_err(Status::from_error)?; let status_code = response.status(); if !status_code.is_success() { return Err(Status::from_response(response)); } let response = { let (parts, body) = response.into_parts(); let mut decoder = codec.decoder(); let message = decoder .decode(body) .map_err(Into::into) .map_err(Status::from_error)?; Response::from_parts(parts, message) }; Ok(response)'),
        ('server unary', 'let request = match self.map_request(request).await { Ok(r) => r, Err(status) => { return self.map_response(Err(status)); } }; let response = service.call(request).await; self.map_response(response)'),
        ('server map_request', 'let (parts, body) = request.into_parts(); let mut decoder = self.request_codec.decoder(); let message = decoder .decode(body) .map_err(Into::into) .map_err(Status::from_error)?; let req = Request::from_parts(parts, message); Ok(req)'),
        ('server map_response', 'let response = match response { Ok(r) => r, Err(status) => return status.into_response(), }; let (mut parts, body) = response.into_parts(); parts.headers.insert( crate::types::header::CONTENT_TYPE.to_owned(), self.response_codec.format_name().to_owned(), ); let mut encoder = self.response_codec.encoder(); let bytes = match encoder .encode(body) .map_err(Into::into) .map_err(|err| Status::internal(format!("Error encoding: {err}"))) { Ok(bytes) => bytes, Err(status) => return status.into_response(), }; Response::from_parts(parts, bytes)'),
    ]
    for name, want in pieces:
        if want not in f:
            raise ValueError('rpc: shape of ' + name)
    c = flat(strip_comments(read(repo, 'crates/anemo/src/rpc/codec.rs')))
    for name, want in [('JsonDecoder', 'fn decode(&mut self, buf: bytes::Bytes) -> Result<Self::Item, Self::Error> { serde_json::from_slice(&buf) }'),
                       ('JsonEncoder', 'let buf = serde_json::to_vec(&item)?; Ok(buf.into())'),
                       ('BincodeDecoder', 'fn decode(&mut self, buf: bytes::Bytes) -> Result<Self::Item, Self::Error> { bincode::deserialize(&buf) }'),
                       ('BincodeEncoder', 'let buf = bincode::serialize(&item)?; Ok(buf.into())')]:
        if want not in c:
            raise ValueError('rpc: shape of ' + name)
    return 'def rpcShapeChecked : Bool := true\n'


PINS = os.path.join(HERE, 'gen_pins.json')


def pin_targets(repo):
    cm = strip_comments(read(repo, 'crates/anemo/src/network/connection_manager.rs'))
    cmi = block_after(cm, r'impl\s+ConnectionManager\s*\{')
    nm = strip_comments(read(repo, 'crates/anemo/src/network/mod.rs'))
    nmi = block_after(nm, r'impl\s+NetworkInner\s*\{')
    cf = strip_comments(read(repo, 'crates/anemo/src/config.rs'))
    cfq = block_after(cf, r'impl\s+QuicConfig\s*\{')
    cfe = block_after(cf, r'impl\s+EndpointConfigBuilder\s*\{')
    cfc = block_after(cf, r'impl\s+EndpointConfig\s*\{')
    ep = strip_comments(read(repo, 'crates/anemo/src/endpoint.rs'))
    return [
        ('dialing/dial_peer', cmi, r'fn\s+dial_peer\s*\(\s*&mut self,[^)]*\)'),
        ('dialing/dial_peer_task', cmi, r'async\s+fn\s+dial_peer_task\s*\([^)]*\)\s*->\s*ConnectingOutput'),
        ('dialing/handle_connecting_result', cmi, r'fn\s+handle_connecting_result\s*\(.*?\}: ConnectingOutput,?\s*\)'),
        ('dialing/handle_incoming_task', cmi, r'async\s+fn\s+handle_incoming_task\s*\([^)]*\)\s*->\s*ConnectingOutput'),
        ('dialing/add_peer', cmi, r'fn\s+add_peer\s*\(&mut self, new_connection: Connection\)'),
        ('dialing/handle_connect_request', cmi, r'fn\s+handle_connect_request\s*\(\s*&mut self,[^)]*\)'),
        ('dialing/address_resolve', strip_comments(read(repo, 'crates/anemo/src/types/address.rs')), r'impl\s+Address'),
        ('dialing/known_peers_insert', block_after(cm, r'impl\s+KnownPeers\s*\{'), r'pub fn insert\s*\(&self, peer_info: PeerInfo\)\s*->\s*Option<PeerInfo>'),
        ('netapi/connect', nmi, r'async\s+fn\s+connect\s*\(&self, addr: Address, peer_id: Option<PeerId>\)\s*->\s*Result<PeerId>'),
        ('netapi/disconnect', nmi, r'fn\s+disconnect\s*\(&self, peer_id: PeerId\)\s*->\s*Result<\(\)>'),
        ('netapi/shutdown', nmi, r'async\s+fn\s+shutdown\s*\(&self\)\s*->\s*Result<\(\)>'),
        ('netapi/is_closed', nmi, r'fn\s+is_closed\s*\(&self\)\s*->\s*bool'),
        ('netapi/peers', nmi, r'fn\s+peers\s*\(&self\)\s*->\s*Vec<PeerId>'),
        ('netapi/upgrade', nm, r'pub fn\s+upgrade\s*\(&self\)\s*->\s*Option<Network>'),
        ('netapi/builder_start', nm, r'pub fn start<T>\(mut self, service: T\)\s*->\s*Result<Network>'),
        ('tlsconfig/build', cfe, r'pub fn build\s*\(self\)\s*->\s*Result<EndpointConfig>'),
        ('tlsconfig/server_config', cfe, r'fn\s+server_config\s*\(\s*certs:.*?\)\s*->\s*Result<quinn::ServerConfig>'),
        ('tlsconfig/client_config', cfe, r'fn\s+client_config\s*\([^)]*\)\s*->\s*Result<[^{]*>'),
        ('tlsconfig/client_config_with_expected_server_identity', cfc, r'pub fn\s+client_config_with_expected_server_identity\s*\([^)]*\)\s*->\s*[^{]*'),
        ('tlsconfig/transport_config', cfq, r'pub\(crate\) fn transport_config\s*\(&self\)\s*->\s*quinn::TransportConfig'),
        ('endpoint/connect_with_client_config', ep, r'fn\s+connect_with_client_config\s*\([^)]*\)\s*->\s*Result<Connecting>'),
        ('endpoint/wait_idle', ep, r'pub async fn wait_idle\s*\(&self, max_timeout: Duration\)'),
    ]


def pinned_texts(repo):
    out = {}
    for name, src, hdr in pin_targets(repo):
        m = re.search(hdr, src, flags=re.S)
        if not m:
            raise ValueError('pins: ' + name + ': signature not found')
        out[name] = flat(strip_hooks(block_after(src[m.start():], re.escape(m.group(0)))))
    return out


def make_pin_item(group, lean_name, doc):
    def f(repo):
        want = {k: v for k, v in json.load(open(PINS)).items() if k.startswith(group + '/')}
        got = pinned_texts(repo)
        for k, v in want.items():
            if got.get(k) != v:
                # show where the text starts to differ
                g = got.get(k, '')
                i = next((j for j in range(min(len(g), len(v))) if g[j] != v[j]), min(len(g), len(v)))
                raise ValueError(f'{k} differs from the text the model was written for, at: `{g[max(0, i - 30):i + 60]}`')
        return f'/-- {doc} -/\ndef {lean_name} : Bool := true\n'
    f.__doc__ = doc
    return f


item_dialing = make_pin_item('dialing', 'dialingShapeChecked', 'dial_peer, dial_peer_task, handle_connecting_result, handle_incoming_task, add_peer are word for word the functions the dial / admission models were written for')
_item_netapi_base = make_pin_item('netapi', 'netApiShapeChecked', 'NetworkInner::{connect, disconnect, shutdown, is_closed, peers} and NetworkRef::upgrade are word for word the functions the API lifecycle model was written for')
def item_netapi(repo):
    nm = strip_comments(read(repo, 'crates/anemo/src/network/mod.rs'))
    if re.search(r'impl\s+Drop\s+for\s+(NetworkInner|Network)\b', nm):
        raise ValueError('netapi: a Drop impl on the network handle (the model has none: the last handle going away only closes the mailbox)')
    return _item_netapi_base(repo)


item_tlsconfig = make_pin_item('tlsconfig', 'tlsConfigShapeChecked', 'EndpointConfigBuilder::{build, server_config, client_config}, client_config_with_expected_server_identity and QuicConfig::transport_config are word for word the functions the name / pin / idle-timeout models were written for')
item_endpoint = make_pin_item('endpoint', 'endpointShapeChecked', 'Endpoint::{connect_with_client_config, wait_idle} are word for word the functions the models were written for')


ITEMS = [('ANEMO', item_anemo), ('Version', item_version), ('StatusCode', item_status),
         ('headers', item_headers), ('ConfigDefaults', item_config), ('tieBreak', item_tiebreak), ('codegen', item_codegen), ('admit', item_admit), ('life', item_life), ('registry', item_registry), ('tick', item_tick), ('rpcpath', item_rpcpath), ('tls', item_tls), ('wirefmt', item_wirefmt), ('tower', item_tower), ('timeouts', item_timeouts), ('router', item_router), ('rpc', item_rpc), ('dialing', item_dialing), ('netapi', item_netapi), ('tlsconfig', item_tlsconfig), ('endpoint', item_endpoint), ('peerid', item_peerid)]

HEADER = '''/- GENERATED by /verif/tools/gen.py from /repo's working tree on every run -- do not edit. -/
import AnemoModel.Basic
namespace Anemo

inductive Origin where
  | inbound
  | outbound
  deriving DecidableEq, Repr, Inhabited

inductive Affinity where
  | high
  | allowed
  | never
  deriving DecidableEq, Repr, Inhabited

/-- the steps of writing / reading one message, in source order -/
inductive WireStep where
  | versionFrame | splitParts | rawHeader | rawHeaderDropExtensions | newBuffer | bincodeFixintHeader
  | sendHeaderFrame | sendBodyFrame | returnOk
  | recvHeaderFrameOrEof | headerFromRaw | headerFromRawChecked | recvBodyFrameOrEof | assemble | returnMessage
  deriving DecidableEq, Repr, Inhabited

/-- the steps of the certificate verifiers, in source order -/
inductive TlsStep where
  | selfSignedAnchor | verifyChainEd25519 | parseAcceptedNames | certValidForAnAcceptedName
  | dialedNameIsDns | dialedNameIsOwn | certValidForDialedName
  | identityOfEndEntity | pinMustMatch | delegateToCertVerifier
  deriving DecidableEq, Repr, Inhabited

/-- the steps of serving one request (`do_handle`) and of issuing one (`do_rpc`), in source order -/
inductive RpcStep where
  | readRequest | stampPeerId | stampOrigin | stampRemoteAddr | stampInbound | raceHandlerWithStop
  | writeResponse | finishSend | awaitStopped | returnOk
  | openBi | frameSend | frameRecv | writeRequest | readResponse | stampResponsePeerId | returnResponse
  deriving DecidableEq, Repr, Inhabited

/-- the clauses of the eligibility filter of the connectivity check -/
inductive EligClause where
  | isHigh | notSelf | hasAddress | notConnected | noPendingDial | pastBackoffStrict | pastBackoffLax
  deriving DecidableEq, Repr, Inhabited

/-- which set's size is subtracted from `max_concurrent_outstanding_connecting_connections` -/
inductive BudgetArg where
  | pendingConnections | pendingDials
  deriving DecidableEq, Repr, Inhabited

/-- the effects `ActivePeersInner::add` performs, in source order (the generated lists are made of these) -/
inductive AddEff where
  | insertNew | closeOld | closeNew | emitLostRequested | emitNew | retNone | retSome
  deriving DecidableEq, Repr, Inhabited

namespace Gen
'''


def main():
    args = sys.argv[1:]
    repo = '/repo'
    out = os.path.join(os.path.dirname(HERE), 'lean', 'AnemoModel', 'Gen')
    if '--repo' in args:
        repo = args[args.index('--repo') + 1]
    if '--out' in args:
        out = args[args.index('--out') + 1]
    baseline = {}
    if os.path.exists(BASELINE):
        baseline = json.load(open(BASELINE))
    status, texts = {}, {}
    for name, fn in ITEMS:
        try:
            texts[name] = fn(repo)
            status[name] = 'ok'
        except Exception as e:  # noqa
            if name in baseline:
                texts[name] = baseline[name]
                status[name] = f'untranslatable:{name}: {e}'
            else:
                raise
    if '--write-pins' in args:
        json.dump(pinned_texts(repo), open(PINS, 'w'), indent=1)
    if '--write-baseline' in args:
        json.dump(texts, open(BASELINE, 'w'), indent=1)
    body = HEADER + '\n'.join(f'-- item {n} [{status[n].split(":")[0]}]\n{texts[n]}' for n, _ in ITEMS) + '\nend Gen\nend Anemo\n'
    os.makedirs(out, exist_ok=True)
    path = os.path.join(out, 'Tables.lean')
    old = open(path).read() if os.path.exists(path) else None
    if old != body:
        with open(path, 'w') as f:
            f.write(body)
    status['_changed_vs_baseline'] = [n for n, _ in ITEMS if baseline.get(n) != texts[n]]
    print(json.dumps(status))


if __name__ == '__main__':
    main()
