#!/usr/bin/env python3
"""Rewrites the theorem index table of DESIGN.md (between <!-- THM-BEGIN --> / <!-- THM-END -->)
from the `theorem Cxx_*` declarations of lean/AnemoModel/Props/Cxx.lean."""
import re, os
root = os.path.dirname(os.path.dirname(os.path.abspath(__file__)))
rows = ['| Id | # | property theorems (prefix `Cxx_` omitted) |', '|---|---|---|']
for i in range(1, 21):
    pid = f'C{i:02d}'
    src = open(os.path.join(root, 'lean/AnemoModel/Props', pid + '.lean')).read()
    names = re.findall(r'^theorem ' + pid + r'_(\w+)', src, re.M)
    rows.append(f'| {pid} | {len(names)} | ' + ', '.join(f'`{n}`' for n in names) + ' |')
p = os.path.join(root, 'DESIGN.md')
s = open(p).read()
a, b = s.index('<!-- THM-BEGIN -->'), s.index('<!-- THM-END -->')
s = s[:a] + '<!-- THM-BEGIN -->\n' + '\n'.join(rows) + '\n' + s[b:]
open(p, 'w').write(s)
print('theorems:', sum(int(r.split('|')[2]) for r in rows[2:]))
