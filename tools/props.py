"""Per-property configuration of /verif/check (modules holding the theorems, evidence texts)."""

KERNEL = 'Lean 4.33.0 kernel (thorough tier: leanchecker re-check of the property modules)'
AXIOMS = 'axioms allowed: propext, Classical.choice, Quot.sound (audited per theorem with #print axioms; no sorry/admit/native_decide/bv_decide/user axioms)'
TRANSLATOR = 'translator tools/gen.py (tables/constants regenerated from /repo on every run)'
HARNESS = 'correspondence harness /verif/harness (generators, canonicalisers, oracles) and the line-protocol driver lean/Driver'

PROPS = {
    'C07': {
        'modules': ['AnemoModel.Props.C07'],
        'technique': 'Lean 4 theorems (round trip, layout, prefix rejection, exact acceptance) over a codec model; tables regenerated from source; byte-for-byte differential correspondence',
        'level_text': 'Machine-checked proof, for every message and every byte string, that the modelled codec round-trips losslessly (any header order), follows the fixed layout (golden vector proved by decide), drops extensions, rejects every strict prefix, any other preamble, unknown versions and unknown status codes; the decoders are total by construction. The model is tied to wire.rs on every run: the preamble/Version/StatusCode tables are regenerated from the source, and the real encoder/decoders are run against the model byte for byte on ~28k (quick) structured and malformed inputs, plus golden vectors pinning the real encoder. Full for the codec model; panic-freedom of third-party parsers is tested, not proved.',
        'level_note': 'Trusted: Lean kernel; axioms propext/Quot.sound/Classical.choice only; tools/gen.py; the harness and driver; tokio-util LengthDelimitedCodec, bincode 1.3 and serde HashMap behaviour are modelled from their source and validated only by the differential run.',
        'rule': 'structured valid messages built from the repo\'s Request/Response types (routes, 0-300 headers, bodies up to 16 KiB quick / 256 KiB thorough) encoded by the real encoder and by the model (bytes compared exactly, header order = the HashMap\'s own iteration order), decoded by both; every strict prefix (all offsets for messages <= 80 bytes, 24 sampled otherwise); a malformed stream (random bytes, mutated-valid, huge frame/bincode lengths); golden vectors in corpus/C07 pin the real encoder. distinct_nontrivial = distinct op lines that get past the preamble check',
        'trusted_base': [KERNEL, AXIOMS, TRANSLATOR + ': ANEMO, Version, StatusCode', HARNESS,
                         'modelled, validated only differentially: tokio-util LengthDelimitedCodec 0.7, bincode 1.3 (fix-int, legacy `deserialize`), serde HashMap (de)serialisation, Rust String UTF-8 validation'],
        'assumptions': ['a QUIC stream delivers the written bytes in order followed by FIN (the decoders are modelled on a complete byte stream)',
                        'header maps are compared as maps (the encoder\'s iteration order is arbitrary; the theorem holds for every order)'],
    },
    'C15': {
        'modules': ['AnemoModel.Props.C15'],
        'technique': 'Lean 4 theorems: exact send/receive boundary for all sizes and limit placements, full RPC outcome characterisation, negation witness for the unset-limit clause; boundary differential in memory and whole RPCs on an in-memory QUIC fabric',
        'level_text': 'Machine-checked proof over the codec/RPC model that a frame is accepted by the writer and by the reader exactly when its length is <= the effective local maximum, that an RPC succeeds exactly when all four frames fit under both ends\' limits and otherwise fails with frame-too-big at the first refusing side, and that data up to and including the maximum is delivered intact. The clause "no limit when unset" is proved FALSE of the model (witness 8 MiB + 1; tokio-util default) and the same input is replayed on the real code each run (known finding C15-unset-limit-is-8MiB). Correspondence: boundary sizes max-2..max+2 for 8 limit values through the real writer/reader, and whole RPCs on the fabric with the limit on caller only / callee only / both / neither, header and body, request and response, each followed by a confinement probe (follow-up RPC, connection still listed). Confinement of the error to the stream rests on QUIC stream independence (trusted).',
        'level_note': 'Trusted: Lean kernel and audited axioms; tools/gen.py; harness/driver; tokio-util codec and quinn stream behaviour (modelled; validated differentially). The effective default of 8 MiB is a constant of tokio-util recorded in the model (codecDefaultMax) and checked by the boundary runs.',
        'rule': 'in memory: for each limit in {16,17,100,1024,1MiB,8MiB,8MiB+5,unset} sizes max-2..max+2 plus two random, header and body, writer and reader; fabric: random placement of limits {300,1000,4096,70000, x2 asymmetric, unset} x which frame sits at the boundary (request header/body, response header/body). Every case distinct by construction (op line)',
        'trusted_base': [KERNEL, AXIOMS, TRANSLATOR, HARNESS, 'modelled: tokio-util LengthDelimitedCodec (max_frame_length default 8 MiB, clamped to the 4-byte field), quinn streams as reliable ordered pipes'],
        'assumptions': ['QUIC streams are independent: an error on one stream does not disturb another (checked by the follow-up probe on every case, not proved)',
                        'virtual time: a hang is an RPC unanswered after 120 virtual seconds'],
    },
}
