"""Per-property configuration of /verif/check (modules holding the theorems, evidence texts)."""

KERNEL = 'Lean 4.33.0 kernel (thorough tier: leanchecker re-check of the property modules)'
AXIOMS = 'axioms allowed: propext, Classical.choice, Quot.sound (audited per theorem with #print axioms; no sorry/admit/native_decide/bv_decide/user axioms)'
TRANSLATOR = 'translator tools/gen.py (tables/constants regenerated from /repo on every run)'
HARNESS = 'correspondence harness /verif/harness (generators, canonicalisers, oracles) and the line-protocol driver lean/Driver'

PROPS = {
    'C07': {
        'modules': ['AnemoModel.Props.C07'],
        'rule': 'structured valid messages built from the repo\'s Request/Response types (routes, 0-300 headers, bodies up to 16 KiB quick / 256 KiB thorough) encoded by the real encoder and by the model (bytes compared exactly, header order = the HashMap\'s own iteration order), decoded by both; every strict prefix (all offsets for messages <= 80 bytes, 24 sampled otherwise); a malformed stream (random bytes, mutated-valid, huge frame/bincode lengths); golden vectors in corpus/C07 pin the real encoder. distinct_nontrivial = distinct op lines that get past the preamble check',
        'trusted_base': [KERNEL, AXIOMS, TRANSLATOR + ': ANEMO, Version, StatusCode', HARNESS,
                         'modelled, validated only differentially: tokio-util LengthDelimitedCodec 0.7, bincode 1.3 (fix-int, legacy `deserialize`), serde HashMap (de)serialisation, Rust String UTF-8 validation'],
        'assumptions': ['a QUIC stream delivers the written bytes in order followed by FIN (the decoders are modelled on a complete byte stream)',
                        'header maps are compared as maps (the encoder\'s iteration order is arbitrary; the theorem holds for every order)'],
    },
}
