#!/usr/bin/env python3
"""seed_translator.py [pattern] : for every seeded change, apply it to a scratch worktree of /repo and run the
translator on it; report whether an item the property's theorems are stated over (gen_items) is
untranslatable or generates different text (= a broken proof obligation / broken tie)."""
import glob, json, os, subprocess, sys, tempfile
sys.path.insert(0, os.path.dirname(os.path.abspath(__file__)))
from props import PROPS
pat = sys.argv[1] if len(sys.argv) > 1 else ''
wt = tempfile.mkdtemp(prefix='seedtr-', dir='/tmp')
os.rmdir(wt)
subprocess.run(['git', '-C', '/repo', 'worktree', 'add', '--detach', wt, 'HEAD'], check=True, capture_output=True)
out = tempfile.mkdtemp(prefix='seedtr-out-', dir='/tmp')
tot = {'untranslatable': 0, 'changed': 0, 'neither': 0}
try:
    for d in sorted(glob.glob('/verif/seeded/*' + pat + '*')):
        name = os.path.basename(d)
        pid = name[:3]
        a = subprocess.run(['git', '-C', wt, 'apply', os.path.join(d, 'patch.diff')], capture_output=True, text=True)
        if a.returncode != 0:
            print(name, 'NOAPPLY'); continue
        r = subprocess.run(['python3', '/verif/tools/gen.py', '--repo', wt, '--out', out], capture_output=True, text=True)
        subprocess.run(['git', '-C', wt, 'checkout', '--', '.'], check=True)
        subprocess.run(['git', '-C', wt, 'clean', '-fdq'], check=True)
        try:
            res = json.loads(r.stdout.strip().split('\n')[-1])
        except Exception:
            print(name, 'GEN-ERROR', r.stderr[-200:]); continue
        items = PROPS[pid]['gen_items']
        unt = [k for k in items if str(res.get(k, 'ok')).startswith('untranslatable')]
        chg = [k for k in res.get('_changed_vs_baseline', []) if k in items]
        kind = 'untranslatable' if unt else ('changed' if chg else 'neither')
        tot[kind] += 1
        print(name, kind, ','.join(unt or chg))
finally:
    subprocess.run(['git', '-C', '/repo', 'worktree', 'remove', '--force', wt], capture_output=True)
    subprocess.run(['git', '-C', '/repo', 'worktree', 'prune'])
    subprocess.run(['rm', '-rf', out])
print(tot)
