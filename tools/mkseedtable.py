#!/usr/bin/env python3
"""Rewrite the seeded-change table of DESIGN.md (between the SEEDS markers) from /verif/seeded/*/meta.json."""
import glob, json, os, re
V = os.path.dirname(os.path.dirname(os.path.abspath(__file__)))
rows = []
for d in sorted(glob.glob(f'{V}/seeded/*/')):
    m = json.load(open(d + 'meta.json'))
    name = os.path.basename(d.rstrip('/'))
    summ = (m.get('summary') or '').replace('\n', ' ').replace('|', '/')
    summ = summ[:230] + ('…' if len(summ) > 230 else '')
    det = (m.get('check_result') or '').replace('\n', ' ').replace('|', '/')
    rows.append(f'| `{name}` | {summ} | {det} |')
p = f'{V}/DESIGN.md'
s = open(p).read()
table = '<!-- SEEDS-BEGIN -->\n| Seed | Change (abridged from the author\'s description) | Caught by |\n|---|---|---|\n' + '\n'.join(rows) + '\n<!-- SEEDS-END -->'
if '<!-- SEEDS-BEGIN -->' in s:
    s = re.sub(r'<!-- SEEDS-BEGIN -->.*?<!-- SEEDS-END -->', lambda _: table, s, flags=re.S)
else:
    start = s.index("| Seed | Change (abridged from the author's description) | Caught by |")
    end = s.index('\n\n', start)
    s = s[:start] + table + s[end:]
open(p, 'w').write(s)
print(len(rows), 'seeds')
