#!/bin/bash
# seed_regression.sh [pattern] : apply every kept seeded change to /repo in turn, run its property's quick check, undo.
# CAUGHT = at least one VIOLATION line with a concrete failing input; CAUGHT-NOINPUT = only broken proof/tie lines.
cd /verif
for d in seeded/${1:-*}/; do
  n=$(basename $d); p=${n:0:3}
  if [ -n "$(git -C /repo status --porcelain)" ]; then echo "REPO-DIRTY before $n"; exit 2; fi
  if ! git -C /repo apply /verif/$d/patch.diff 2>/dev/null; then echo "$n NOAPPLY"; continue; fi
  out=$(./check $p --tier quick 2>&1 | grep -E "^OK|VIOLATION")
  git -C /repo checkout -- .
  if echo "$out" | grep "VIOLATION" | grep -qv "no-failing-input-found"; then echo "$n CAUGHT"
  elif echo "$out" | grep -q "VIOLATION"; then echo "$n CAUGHT-NOINPUT"
  else echo "$n MISSED $(echo "$out" | head -1 | cut -c1-110)"; fi
done
