#!/bin/bash
# seed_regression.sh [pattern] : apply every kept seeded change to /repo in turn, run its property's quick check, undo.
cd /verif
for d in seeded/${1:-*}/; do
  n=$(basename $d); p=${n:0:3}
  if [ -n "$(git -C /repo status --porcelain)" ]; then echo "REPO-DIRTY before $n"; exit 2; fi
  if ! git -C /repo apply /verif/$d/patch.diff 2>/dev/null; then echo "$n NOAPPLY"; continue; fi
  out=$(./check $p --tier quick 2>&1 | grep -E "^OK|VIOLATION" | head -1 | cut -c1-110)
  git -C /repo checkout -- .
  case "$out" in
    VIOLATION*no-failing-input-found*) echo "$n CAUGHT-NOINPUT";;
    VIOLATION*) echo "$n CAUGHT";;
    *) echo "$n MISSED $out";;
  esac
done
