#!/usr/bin/env python3
"""finish_round.py <round-log> <round-tag> : for every line of a process_round log, build the detection text from
the replay the check wrote (oracle kind + the tail of the ops) and keep the seed (tools/keep_round7.py)."""
import json, os, re, subprocess, sys
log, tag = sys.argv[1], sys.argv[2]
for line in open(log):
    m = re.match(r'(C\d\d) (mutant\d+): (RESULT [^|]*)\| check: (\w+)( \(no-failing-input-found\))? \| (.*)', line)
    if not m:
        continue
    pid, mut, conf, verdict, nf, first = m.groups()
    if 'demo_clean=pass demo_mutant=fail suite_mutant=pass' not in conf:
        print('NOT CONFIRMED', pid, mut, conf); continue
    if verdict != 'CAUGHT':
        print('NOT CAUGHT', pid, mut, verdict); continue
    rp = re.search(r'replay=(\S+)', first)
    text = 'quick tier'
    if rp and os.path.exists(rp.group(1)):
        d = json.load(open(rp.group(1)))
        f = d.get('failure') or {}
        if f.get('kind'):
            ops = d.get('ops') or []
            text += f", concrete input: oracle '{f['kind'][:200]}'" + (f" (last op: {str(ops[-1])[:140]})" if ops else '')
        else:
            text += ': ' + str(d.get('kind'))
    if nf:
        text += ' - reported as a broken tie only (no-failing-input-found)'
    env = dict(os.environ, ROUND=tag)
    subprocess.run(['python3', '/verif/tools/keep_round7.py', pid, f'/tmp/wt/{pid}', mut, text], env=env, check=True)
