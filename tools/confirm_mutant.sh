#!/bin/bash
# confirm_mutant.sh <worktree> <mutant-dir> '<place demo cmd>' '<run demo cmd>' '<cleanup cmd>'
# Independently re-verifies a seeded change: demo passes on the clean tree, fails with the patch;
# the patch compiles and the whole existing suite passes with it.  Leaves the worktree clean.
set -u
WT=$1; M=$2; PLACE=$3; RUN=$4; CLEAN=$5
cd "$WT" || exit 2
LOG="$M/confirm.log"; : > "$LOG"
git checkout -q -- . ; eval "$CLEAN" >/dev/null 2>&1
eval "$PLACE" >>"$LOG" 2>&1
echo "== clean tree: demo" >>"$LOG"
if eval "$RUN" >>"$LOG" 2>&1; then C1=pass; else C1=fail; fi
git apply "$M/patch.diff" >>"$LOG" 2>&1 || { echo "RESULT patch-does-not-apply" | tee -a "$LOG"; git checkout -q -- .; eval "$CLEAN"; exit 1; }
echo "== mutant: demo" >>"$LOG"
if eval "$RUN" >>"$LOG" 2>&1; then C2=pass; else C2=fail; fi
eval "$CLEAN" >/dev/null 2>&1; git checkout -q -- . ; git apply "$M/patch.diff"
echo "== mutant: full suite" >>"$LOG"
if cargo test --workspace --no-fail-fast --offline >>"$LOG" 2>&1; then C3=pass; else C3=fail; fi
git checkout -q -- . ; eval "$CLEAN" >/dev/null 2>&1
echo "RESULT demo_clean=$C1 demo_mutant=$C2 suite_mutant=$C3" | tee -a "$LOG"
[ "$C1" = pass ] && [ "$C2" = fail ] && [ "$C3" = pass ]
