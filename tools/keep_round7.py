#!/usr/bin/env python3
"""keep_round7.py <Cxx> <worktree> <mutantN> <check-result text> : build meta.json from the sub-agent's demo.txt
(Name / Needs lines) and the patch, then keep the seed as seeded/Cxx-r7-<name> (tools/keep_seed.py)."""
import json, os, re, subprocess, sys
pid, wt, mut, detected = sys.argv[1:5]
SUMMARIES = {
 ('C20','mutant1'): 'AllowedPeers::authorize accepts every identified sender when the allow-list is empty ("no restriction configured")',
 ('C20','mutant2'): 'RequireAuthorization caches the last authorized PeerId and skips the authorizer for the next request of the same sender (wrong for authorizers that look at more than the sender)',
 ('C07','mutant1'): 'read_response reads the body frame only for success statuses: a non-success response loses its body, and a strict prefix of a valid error response decodes',
 ('C07','mutant2'): 'network_message_frame_codec uses a 2-byte length prefix when max_frame_size <= 65535 (symmetric, so equal configs still round-trip; layout and interop broken)',
 ('C19','mutant1'): 'Block mode: until_key_ready replaced by check_key + sleep(wait): a waiter sleeps but never takes a token, N waiters are released together',
 ('C19','mutant2'): 'ReturnError mode: a refusal whose wait truncates to 0 ms is dropped and the request is admitted without a token',
 ('C15','mutant1'): 'BiStreamRequestHandler builds its response writer from a bare length-delimited codec: the callee no longer refuses to send a response over its own max_frame_size',
 ('C15','mutant2'): 'write_request coalesces version frame and request header and writes them with write_all, bypassing the framed encoder: the sender-side limit no longer applies to the header frame',
 ('C17','mutant1'): 'server generator computes SERVICE_NAME as [package, ident].join("."): an empty package gives ".Greeter", the router prefix no longer covers the client routes',
 ('C17','mutant2'): 'Status::into_response returns early for a status without message, before copying headers: headers-only error statuses lose their headers',
 ('C08','mutant1'): 'per-request select reacts only to explicit STOP_SENDING and the inbound handler drains in-flight requests with join_next instead of aborting: an in-flight handler that never completes blocks shutdown',
 ('C08','mutant2'): 'Endpoint::wait_idle: when the bounded wait expires it closes again and waits UNBOUNDED: shutdown_idle_timeout no longer bounds shutdown',
 ('C12','mutant1'): 'do_handle closes the whole connection when read_request fails: abandoning an RPC mid-send (stream reset) kills sibling and later RPCs',
 ('C12','mutant2'): 'do_handle does not watch stopped() for requests that carry a timeout header: abandoned RPCs with a deadline keep their handler until the deadline',
 ('C14','mutant1'): 'verify_client_cert: alternate names checked with .any(|v| v.is_ok()) on a Result<bool>: with an alternate name configured any self-signed client certificate is accepted',
 ('C14','mutant2'): 'ExpectedCertVerifier (pinned dial) no longer delegates to CertVerifier: the certificate is not checked for the dialled network name',
 ('C18','mutant1'): 'InflightLimit::call garbage-collects the peer entry after a request when available_permits()+1 == max (read as "I was the last"): with a queued waiter the permit was handed over, the entry is dropped, the waiter runs on the orphaned semaphore and the next arrival gets a fresh one',
 ('C16','mutant1'): 'Router::call retries a MatchError::ExtraTrailingSlash with the trailing slash stripped: "/echo/" is served by the "/echo" service instead of NotFound',
 ('C10','mutant1'): 'ActivePeersInner::len counts only inbound connections: outbound (explicit or background) connections stop counting towards the limit',
 ('C11','mutant1'): 'try_parse_timeout maps a header of exactly "0" to "no header": a zero deadline falls back to the local default (or none)',
 ('C01','mutant1'): 'Connection::try_peer_id takes the LAST certificate of the chain (chain.pop()) instead of the end-entity one: a client presenting [cert(A), cert(X)] is attributed X',
 ('C05','mutant1'): 'the handler exit path removes the peer BY ID when its connection was closed locally: the tie-break loser, once closed, takes the winning connection with it',
}
m = os.path.join(wt, 'out', mut)
txt = open(os.path.join(m, 'demo.txt')).read()
def field(k):
    r = re.search(rf'^\s*{k}\s*:\s*(.+?)(?=^\s*\w+\s*:|\Z)', txt, re.S | re.M)
    return ' '.join(r.group(1).split()) if r else None
name = re.sub(r'[^a-z0-9\-]', '', (field('Name') or mut).lower())[:70]
files = sorted(set(re.findall(r'^\+\+\+ b/(\S+)', open(os.path.join(m, 'patch.diff')).read(), re.M)))
json.dump({'summary': (SUMMARIES.get((pid, mut)) if os.environ.get('ROUND', 'r7') in ('r7', 'r8') else None) or field('Summary') or field('Expected'), 'needs': field('Needs'), 'files': files}, open(os.path.join(m, 'meta.json'), 'w'), indent=1)
subprocess.run(['python3', '/verif/tools/keep_seed.py', pid, m, f'{pid}-{os.environ.get("ROUND", "r7")}-{name}', detected], check=True)
